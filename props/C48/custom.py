"""
C48 — tie K and Spec-on-impl through the real CLI under strace.

For every generated input:
  1. the `d2` binary is built from the tree under test (D2V_REPO) into the work dir;
  2. one undisturbed run of `d2 fmt f.d2` / `d2 in.d2 out.svg` under `strace -f` gives the list of system calls on
     sandbox paths (the op list of the model) and the new content;
  3. kill runs: for every traced file-system call class S and every ordinal N up to the largest per-thread count seen,
     the command is re-run with `-e inject=S:signal=SIGKILL:when=N` (strace counts per thread, so each kill run's own
     trace says where the kill landed); the file content afterwards is read back.
Every run becomes one JSON line for lean/D2V/Drv/C48.lean (model-vs-impl + the property's predicate on the real
content).  Nothing here decides the verdict except "the driver said so".
"""
import os, re, json, hashlib, random, shutil, subprocess, time
from concurrent.futures import ThreadPoolExecutor

STRACE = shutil.which("strace") or "/usr/bin/strace"
SYSCALLS = ["openat", "open", "creat", "write", "pwrite64", "writev", "pwritev", "pwritev2", "close", "rename", "renameat",
            "renameat2", "unlink", "unlinkat", "rmdir", "ftruncate", "truncate", "link", "linkat", "symlink", "symlinkat",
            "mkdir", "mkdirat", "chmod", "fchmod", "fchmodat", "fsync", "fdatasync", "sendfile", "copy_file_range"]
# classes a kill is injected on (the others never occur in these commands; if one does it shows up as "unmodelled")
KILL_CLASSES = ["openat", "write", "close", "renameat", "rename", "renameat2", "fchmodat", "chmod", "mkdirat", "mkdir",
                "unlinkat", "unlink", "fsync", "fdatasync", "ftruncate", "pwrite64", "writev"]

HEXSTR = r'"((?:\\x[0-9a-f]{2})*)"(\.\.\.)?'


def unx(s):
    return bytes(int(h, 16) for h in re.findall(r"\\x([0-9a-f]{2})", s))


# ------------------------------------------------------------------------------------------------ inputs
def gen_fmt_source(seed, size):
    """an unformatted but valid d2 source of roughly `size` bytes (formatting always changes it)"""
    r = random.Random("fmt-%d-%d" % (seed, size))
    out = []
    n = 0
    i = 0
    while n < size or i < 2:
        k = r.randrange(6)
        a, b = "n%d" % r.randrange(1 + i), "n%d" % r.randrange(1 + i)
        if k == 0:
            line = "%s->%s" % (a, b)
        elif k == 1:
            line = "%s:    {shape:circle}" % a
        elif k == 2:
            line = "%s  :  \"label %d\"" % (a, r.randrange(10 ** 6))
        elif k == 3:
            line = "%s -> %s:   hello  {style.opacity:0.4}" % (a, b)
        elif k == 4:
            line = "%s.%s:   x" % (a, b)
        else:
            line = "#   comment %d" % r.randrange(1000)
        out.append(line)
        n += len(line) + 1
        i += 1
    return ("\n".join(out) + "\n").encode()


def gen_render_source(seed, nodes):
    r = random.Random("ren-%d-%d" % (seed, nodes))
    lines = []
    for i in range(max(1, nodes - 1)):
        lines.append("n%d -> n%d: e%d" % (r.randrange(nodes), r.randrange(nodes), i))
    if r.randrange(2):
        lines.append("n0.shape: circle")
    return ("\n".join(lines) + "\n").encode()


def gen_old(seed, kind):
    if kind == "absent":
        return None
    r = random.Random("old-%d-%s" % (seed, kind))
    n = {"small": 40, "large": 200000}.get(kind, 40)
    return ("<svg><!-- previous output %d -->" % r.randrange(10 ** 9)).encode() + b"x" * n + b"</svg>\n"


def recipes(seed, tier, search):
    r = random.Random("c48-%d" % seed)
    out = []
    if tier == "quick":
        # (an obligation that broke — `search` — keeps this budget: the kill runs that matter are the deterministic ones)
        fmt_sizes = [r.randrange(5, 60), r.randrange(1500, 4000), r.randrange(60000, 140000)]
        ren = [(r.randrange(2, 4), "absent"), (r.randrange(4, 9), "small")]
    else:
        fmt_sizes = [r.randrange(5, 60) for _ in range(3)] + [r.randrange(200, 5000) for _ in range(5)] + \
                    [r.randrange(5000, 200000) for _ in range(4)] + [r.randrange(300000, 700000) for _ in range(2)]
        ren = [(r.randrange(2, 40), k) for k in ["absent", "small", "large"] * 3 + ["small"]]
    for s in fmt_sizes:
        out.append({"cmd": "fmt", "seed": seed, "size": s})
    for n, k in ren:
        out.append({"cmd": "render", "seed": seed, "nodes": n, "old": k})
    # environments in which "atomic" is easy to lose: the path given to fmt is a symlink to the source; the temporary
    # directory ($TMPDIR) is on another file system than the target (a rename from there fails with EXDEV)
    out.append({"cmd": "fmt", "seed": seed, "size": r.randrange(20, 400), "variant": "symlink"})
    out.append({"cmd": "fmt", "seed": seed, "size": r.randrange(20, 400), "variant": "tmpdir"})
    out.append({"cmd": "render", "seed": seed, "nodes": r.randrange(2, 4), "old": "small", "variant": "tmpdir"})
    if tier != "quick":
        out.append({"cmd": "fmt", "seed": seed, "size": r.randrange(5000, 90000), "variant": "symlink"})
        out.append({"cmd": "render", "seed": seed, "nodes": r.randrange(2, 9), "old": "absent", "variant": "tmpdir"})
    return out


def other_fs_tmpdir(work):
    """a directory on a file system other than the work dir's, or (None, reason)"""
    cand = "/dev/shm"
    try:
        if os.stat(cand).st_dev == os.stat(work).st_dev:
            return None, "/dev/shm is on the same file system as the work dir"
        d = os.path.join(cand, "d2v-c48-%d" % os.getpid())
        os.makedirs(d, exist_ok=True)
        return d, ""
    except OSError as e:
        return None, "no second file system available: %s" % e


def materialise(rec):
    """recipe -> (files: list of (name, bytes), argv, target)"""
    if rec["cmd"] == "fmt":
        src = gen_fmt_source(rec["seed"], rec["size"])
        if rec.get("variant") == "symlink":
            # `d2 fmt f.d2` where f.d2 is a symbolic link to real.d2 (created by strace_run from the "->" marker)
            return [("real.d2", src), ("f.d2", "->real.d2")], ["fmt", "f.d2"], "real.d2"
        return [("f.d2", src)], ["fmt", "f.d2"], "f.d2"
    src = gen_render_source(rec["seed"], rec["nodes"])
    files = [("in.d2", src)]
    old = gen_old(rec["seed"], rec["old"])
    if old is not None:
        files.append(("out.svg", old))
    return files, ["in.d2", "out.svg"], "out.svg"


# ------------------------------------------------------------------------------------------------ strace
def strace_run(d2, sb, files, argv, inject, only_path=None, timeout=180, tmpdir=None):
    shutil.rmtree(sb, ignore_errors=True)
    os.makedirs(sb)
    links = []
    for name, data in files:
        if isinstance(data, str) and data.startswith("->"):
            os.symlink(data[2:], os.path.join(sb, name))
            links.append(name)
            continue
        with open(os.path.join(sb, name), "wb") as f:
            f.write(data)
    tr = sb + ".trace"
    cmd = [STRACE, "-f", "-qq", "-s", "8000000", "-xx", "-o", tr, "-e", "signal=none",
           "-e", "trace=" + ",".join(SYSCALLS)]
    if only_path:
        # -P restricts the trace AND the injection ordinals to calls that name the path or a descriptor open on it
        cmd += ["-P", os.path.join(sb, only_path)]
        for l in links:
            cmd += ["-P", os.path.join(sb, l)]
    if inject:
        cmd += ["-e", "inject=%s:signal=SIGKILL:when=%d" % inject]
    cmd += [d2] + argv
    env = {"PATH": "/nonexistent", "HOME": sb, "PWD": sb, "D2_LAYOUT": "dagre"}
    if tmpdir:
        env["TMPDIR"] = tmpdir
    try:
        p = subprocess.run(cmd, cwd=sb, env=env, stdin=subprocess.DEVNULL, stdout=subprocess.PIPE, stderr=subprocess.PIPE, timeout=timeout)
        rc, err = p.returncode, p.stderr.decode("utf-8", "replace")[-400:]
    except subprocess.TimeoutExpired:
        rc, err = -999, "timeout"
    lines = open(tr, errors="replace").read().splitlines() if os.path.exists(tr) else []
    os.path.exists(tr) and os.remove(tr)
    return rc, err, lines


def join_lines(lines):
    """-> list of (pid, text, state) with unfinished/resumed pairs joined; state: 'done' | 'pending'"""
    out = []
    unfinished = {}
    for ln in lines:
        m = re.match(r"(\d+)\s+(.*)$", ln)
        if not m:
            continue
        pid, txt = m.group(1), m.group(2)
        if txt.startswith("+++") or txt.startswith("---"):
            continue
        if txt.endswith("<unfinished ...>"):
            unfinished[pid] = (len(out), txt[:-len("<unfinished ...>")].rstrip())
            out.append(None)
            continue
        m2 = re.match(r"<\.\.\. (\w+) resumed>(.*)$", txt)
        if m2:
            if pid in unfinished:
                idx, head = unfinished.pop(pid)
                # the call takes effect when it returns: keep it at the position of its completion
                out.append((pid, head + m2.group(2), "done"))
            continue
        out.append((pid, txt, "done"))
    pend = [(pid, head, "pending") for pid, (idx, head) in unfinished.items()]
    res = [x for x in out if x is not None]
    # a call killed on entry is printed complete with "= ?"
    fin = []
    for pid, txt, st in res:
        if re.search(r"=\s*\?\s*$", txt):
            pend.append((pid, re.sub(r"\s*=\s*\?\s*$", "", txt), "pending"))
        else:
            fin.append((pid, txt, st))
    return fin, pend


def parse_call(txt):
    m = re.match(r"(\w+)\((.*)$", txt)
    if not m:
        return None
    name, rest = m.group(1), m.group(2)
    ret = None
    mr = re.search(r"\)\s*=\s*(-?\d+|\?)(?:\s+\w+\s+\(.*\))?\s*$", rest)
    if mr:
        ret = None if mr.group(1) == "?" else int(mr.group(1))
        args = rest[:mr.start()]
    else:
        args = rest.rstrip(") ")
    return name, args, ret


class Sandbox:
    """turns the joined trace into model operations on sandbox-relative paths"""
    def __init__(self, sb, target=None, alias=None, tmpdir=None):
        self.sb = os.path.realpath(sb)
        self.target = target
        self.alias = alias or {}      # symlink name -> name of the file it points to (both inside the sandbox)
        self.tmpdir = os.path.realpath(tmpdir) if tmpdir else None
        self.wfds = {}     # fd -> relative path (opened for writing inside the sandbox)
        self.rfds = {}     # fd -> relative path (opened read-only / directories inside the sandbox; no model operation)

    def matches_target(self, name, args):
        """what `strace -P <target>` selects: the target named by a path argument or by a descriptor open on it"""
        for a, t in re.findall(HEXSTR, args):
            if self.rel(unx(a)) == self.target:
                return True
        if name in ("write", "pwrite64", "writev", "pwritev", "pwritev2", "ftruncate", "fsync", "fdatasync", "fchmod", "close", "sendfile", "copy_file_range"):
            m = re.match(r"\s*(\d+)", args)
            if m:
                fd = int(m.group(1))
                return self.wfds.get(fd) == self.target or self.rfds.get(fd) == self.target
        return False

    def rel(self, raw):
        p = raw.decode("utf-8", "replace")
        if not p.startswith("/"):
            p = os.path.join(self.sb, p)
        p = os.path.normpath(p)
        if p == self.sb:
            return "."
        if p.startswith(self.sb + "/"):
            q = p[len(self.sb) + 1:]
            return self.alias.get(q, q)
        if self.tmpdir and p.startswith(self.tmpdir + "/"):
            return "TMPDIR/" + p[len(self.tmpdir) + 1:]
        return None

    def op(self, name, args, ret, pending=False):
        """-> None (not about the sandbox) or a dict (model operation)"""
        strs = [(unx(a), bool(t)) for a, t in re.findall(HEXSTR, args)]
        failed = (ret is not None and ret < 0)
        unknown = lambda why: {"op": "unknown", "txt": "%s: %s(%s)" % (why, name, re.sub(HEXSTR, lambda m: '"' + unx(m.group(1))[:60].decode("latin1") + '"', args)[:200])}
        if name in ("openat", "open", "creat"):
            if not strs:
                return None
            p = self.rel(strs[0][0])
            if p is None:
                return None
            flags = args.split(",")[-2 if re.search(r",\s*0[0-7]*\s*$", args) else -1] if name != "creat" else "O_WRONLY|O_CREAT|O_TRUNC"
            if "O_WRONLY" not in flags and "O_RDWR" not in flags:
                if ret is not None and ret >= 0:
                    self.rfds[ret] = p
                return None
            if failed:
                return {"op": "nop", "why": "failed open"}
            fd = ret if ret is not None else 10 ** 6
            if "O_TRUNC" in flags:
                o = {"op": "openTrunc", "fd": fd, "p": p}
            elif "O_EXCL" in flags and "O_CREAT" in flags:
                o = {"op": "createExcl", "fd": fd, "p": p}
            else:
                return unknown("open for writing without O_TRUNC/O_EXCL")
            if not pending:
                self.rfds.pop(fd, None)
                self.wfds[fd] = p
            return o
        if name in ("write", "pwrite64", "writev", "pwritev", "pwritev2", "ftruncate", "fsync", "fdatasync", "fchmod", "sendfile", "copy_file_range"):
            m = re.match(r"\s*(\d+)", args)
            if not m:
                return None
            fd = int(m.group(1))
            if fd not in self.wfds:
                return None
            if name in ("fsync", "fdatasync", "fchmod"):
                return {"op": "nop", "why": name}
            if name != "write":
                return unknown("unmodelled call on a sandbox descriptor")
            if failed:
                return {"op": "nop", "why": "failed write"}
            if not strs or strs[0][1]:
                return unknown("write data truncated in the trace")
            data = strs[0][0]
            if ret is not None:
                data = data[:ret]
            return {"op": "write", "fd": fd, "d": data.hex()}
        if name == "close":
            m = re.match(r"\s*(\d+)", args)
            fd = int(m.group(1)) if m else -1
            if fd in self.rfds:
                if not pending:
                    self.rfds.pop(fd, None)
                return None
            if fd in self.wfds:
                if not pending:
                    del self.wfds[fd]
                return {"op": "close", "fd": fd}
            return None
        if name in ("rename", "renameat", "renameat2"):
            if len(strs) < 2:
                return None
            s, d = self.rel(strs[0][0]), self.rel(strs[1][0])
            if s is None and d is None:
                return None
            if failed:
                return {"op": "nop", "why": "failed rename"}
            if s is None or d is None:
                return unknown("rename across the sandbox boundary")
            if not pending:
                for tab in (self.wfds, self.rfds):
                    for fd, q in list(tab.items()):
                        if q == s:
                            tab[fd] = d
            return {"op": "rename", "s": s, "d": d}
        if name in ("unlink", "unlinkat", "rmdir"):
            p = self.rel(strs[0][0]) if strs else None
            if p is None:
                return None
            if failed or name == "rmdir" or "AT_REMOVEDIR" in args:
                return {"op": "nop", "why": name}
            return {"op": "remove", "p": p}
        if name in ("mkdir", "mkdirat", "chmod", "fchmodat"):
            p = self.rel(strs[0][0]) if strs else None
            if p is None:
                return None
            return {"op": "nop", "why": name}
        if name in ("truncate", "link", "linkat", "symlink", "symlinkat"):
            if any(self.rel(s[0]) is not None for s in strs):
                return unknown("unmodelled call on a sandbox path")
            return None
        return None


def analyse(sb, lines, target, alias=None, tmpdir=None):
    """-> calls: completed calls in order [{cls, op|None, tm}], pending: [{cls, op|None, tm}], totals"""
    fin, pend = join_lines(lines)
    S = Sandbox(sb, target, alias, tmpdir)
    calls = []
    for pid, txt, st in fin:
        c = parse_call(txt)
        if not c:
            continue
        name, args, ret = c
        tm = S.matches_target(name, args)
        o = S.op(name, args, ret)
        calls.append({"cls": name, "op": o, "tm": tm, "pid": pid})
    pending = []
    for pid, txt, st in pend:
        c = parse_call(txt)
        if not c:
            continue
        name, args, ret = c
        tm = S.matches_target(name, args)
        o = S.op(name, args, None, pending=True)
        pending.append({"cls": name, "op": o, "tm": tm, "pid": pid})
    return calls, pending


def read_target(sb, target):
    try:
        return open(os.path.join(sb, target), "rb").read()
    except FileNotFoundError:
        return None


def slim(case):
    """replay files do not need megabytes of hex"""
    c = json.loads(json.dumps(case))
    o = c.get("out", {})
    for k in ("new", "final"):
        if isinstance(o.get(k), str) and len(o[k]) > 400:
            o[k] = o[k][:400] + "...(%d hex digits)" % len(o[k])
    for f in o.get("files", []):
        if len(f.get("d", "")) > 400:
            f["d"] = f["d"][:400] + "...(%d hex digits)" % len(f["d"])
    for op in o.get("ops", []) + ([o["pending"]] if o.get("pending") else []):
        if len(op.get("d", "")) > 400:
            op["d"] = op["d"][:400] + "...(%d hex digits)" % len(op["d"])
    return c


# ------------------------------------------------------------------------------------------------ main
def run(ctx):
    work, repo, tier, seed, log = ctx["work"], ctx["repo"], ctx["tier"], ctx["seed"], ctx["log"]
    t0 = time.time()
    d2 = os.path.join(work, "d2")
    rc, out, dt = ctx["run"](["go", "build", "-o", d2, "."], cwd=repo, env=ctx["goenv"])
    ctx["ev"]["d2_build_s"] = round(dt, 2)
    if rc != 0:
        return {"violations": [{"kind": "harness-error", "sig": "d2-build", "detail": out[-1500:], "case": None,
                                "theorem": "correspondence:C48"}]}
    recs = recipes(seed, tier, ctx["search"])
    replay_inject = None
    if ctx.get("replay"):
        rp = json.load(open(ctx["replay"]))
        cin = ((rp.get("case") or {}).get("in")) or {}
        if "recipe" in cin:
            recs = [cin["recipe"]]
            inj = cin.get("inject") or ""
            if inj:
                mode, s, n = inj.split(":")
                replay_inject = (mode, s, int(n))
    workers = max(2, min(8, (os.cpu_count() or 4) // 2))
    cases = []
    hist = {}
    crash_cov = {}
    harness_problems = []

    def bump(k, n=1):
        hist[k] = hist.get(k, 0) + n

    def mkcase(rec, files, target, new, inject, ops, pending, killed, final, triv):
        return {"k": "trace", "triv": triv,
                "in": {"cmd": rec["cmd"], "recipe": rec, "inject": ("%s:%s:%d" % inject) if inject else "",
                       "src_sha1": hashlib.sha1(files[0][1]).hexdigest()},
                "out": {"target": target, "files": [{"p": n, "d": d.hex()} for n, d in files if isinstance(d, bytes)], "new": new.hex(),
                        "ops": ops, "pending": pending, "killed": killed, "final": None if final is None else final.hex()}}

    xfs, xfs_why = other_fs_tmpdir(work)
    skipped = []

    def run_tmp(tag):
        """a fresh $TMPDIR on the other file system for one run"""
        d = os.path.join(xfs, tag)
        shutil.rmtree(d, ignore_errors=True)
        os.makedirs(d)
        return d

    for ri, rec in enumerate(recs):
        files, argv, target = materialise(rec)
        alias = {n: d[2:] for n, d in files if isinstance(d, str) and d.startswith("->")}
        use_tmp = rec.get("variant") == "tmpdir"
        if use_tmp and not xfs:
            skipped.append({"recipe": rec, "reason": xfs_why})
            bump("skipped:tmpdir-variant(%s)" % xfs_why)
            continue
        if rec.get("variant"):
            bump("variant:" + rec["variant"])
        sb = os.path.join(work, "sb", "r%d-ref" % ri)
        td = run_tmp("r%d-ref" % ri) if use_tmp else None
        rc, err, lines = strace_run(d2, sb, files, argv, None, tmpdir=td)
        calls, _ = analyse(sb, lines, target, alias, td)
        ops = [c["op"] for c in calls if c["op"] is not None]
        new = read_target(sb, target)
        if rc != 0 or new is None:
            return {"violations": [{"kind": "harness-error", "sig": "reference-run", "detail": "rc=%s %s" % (rc, err), "case": {"in": rec},
                                    "theorem": "correspondence:C48"}]}
        old = dict(files).get(target)
        cases.append(mkcase(rec, files, target, new, None, ops, None, False, new, new == old))
        bump("ref:" + rec["cmd"])
        bump("ref-ops:%s:%s" % (rec["cmd"], ",".join(o["op"] for o in ops)))
        # calls that `strace -P target` selects, in order, with the number of model operations completed before each
        tm = []
        nops = 0
        for c in calls:
            if c["tm"]:
                tm.append({"cls": c["cls"], "op": c["op"], "before": nops})
            if c["op"] is not None:
                nops += 1
        tm_tot = {}
        for c in tm:
            tm_tot[c["cls"]] = tm_tot.get(c["cls"], 0) + 1
        plan = []
        if replay_inject:
            plan = [replay_inject] * 3
        else:
            # (P) deterministic: ordinals counted over the calls that touch the target (by name or descriptor)
            for cls, n in sorted(tm_tot.items()):
                for k in range(1, n + 1):
                    plan.append(("P", cls, k))
            # (U) best effort: unfiltered ordinals (per thread, startup noise included) for the calls on the temporary file
            for cls, top in (("write", 3), ("openat", 0), ("close", 0)):
                for k in range(1, top + 1):
                    plan.append(("U", cls, k))
            if tier != "quick":
                per_thread = {}
                for c in calls:
                    per_thread[(c["pid"], c["cls"])] = per_thread.get((c["pid"], c["cls"]), 0) + 1
                for cls in ("openat", "close", "write"):
                    top = max([n for (pid, k), n in per_thread.items() if k == cls] + [0])
                    for k in range(1, top + 2):
                        if ("U", cls, k) not in plan:
                            plan.append(("U", cls, k))
        log("C48 input %d/%d %s: %d calls on the sandbox (%d touch the target) in the reference run, %d kill runs" %
            (ri + 1, len(recs), json.dumps(rec), len(ops), len(tm), len(plan)))

        def kill_run(arg):
            j, (mode, cls, n) = arg
            sbk = os.path.join(work, "sb", "r%d-k%d" % (ri, j))
            tdk = run_tmp("r%d-k%d" % (ri, j)) if use_tmp else None
            rc, err, lines = strace_run(d2, sbk, files, argv, (cls, n), only_path=target if mode == "P" else None, tmpdir=tdk)
            kcalls, kpend = analyse(sbk, lines, target, alias, tdk)
            if tdk:
                shutil.rmtree(tdk, ignore_errors=True)
            final = read_target(sbk, target)
            shutil.rmtree(sbk, ignore_errors=True)
            return (mode, cls, n), rc, kcalls, kpend, final

        with ThreadPoolExecutor(max_workers=workers) as ex:
            for inj, rc, kcalls, kpend, final in ex.map(kill_run, list(enumerate(plan))):
                killed = rc in (137, -9)
                if not killed:
                    bump("kill:%s:ordinal-not-reached" % inj[0])
                    if rc != 0:
                        harness_problems.append("kill run %s of %s ended with rc=%s" % (inj, rec, rc))
                    continue
                if inj[0] == "P":
                    # the filtered trace lists only calls that touch the target: place the kill in the reference call list
                    done = len(kcalls)
                    seq = [c["cls"] for c in kcalls] + [c["cls"] for c in kpend[:1]]
                    if done >= len(tm) or seq != [c["cls"] for c in tm[:len(seq)]] or not kpend:
                        bump("kill:P:diverged-from-reference")
                        harness_problems.append("kill run %s of %s: filtered trace %s does not follow the reference %s" %
                                                (inj, rec, seq, [c["cls"] for c in tm]))
                        continue
                    at = tm[done]
                    kops, pend_op = ops[:at["before"]], at["op"]
                else:
                    kops = [c["op"] for c in kcalls if c["op"] is not None]
                    pend_op = next((c["op"] for c in kpend if c["op"] is not None), None)
                point = "%s:after-%d-of-%d:%s" % (rec["cmd"], len(kops), len(ops), (pend_op or {}).get("op", "other"))
                crash_cov[point] = crash_cov.get(point, 0) + 1
                triv = (len(kops) == 0 and pend_op is None)
                bump("kill:%s:%s" % (inj[0], "before-first-call(trivial)" if triv else "after-%d-calls" % len(kops)))
                cases.append(mkcase(rec, files, target, new, inj, kops, pend_op, True, final, triv))
        shutil.rmtree(os.path.join(work, "sb"), ignore_errors=True)
    if xfs:
        shutil.rmtree(xfs, ignore_errors=True)

    # ---- Lean driver
    opsf = os.path.join(work, "ops.jsonl")
    with open(opsf, "w") as f:
        for c in cases:
            f.write(json.dumps(c) + "\n")
    exe = os.path.join(ctx["lean"], ".lake", "build", "bin", "drv_c48")
    with open(opsf) as fi:
        p = subprocess.run([exe], stdin=fi, stdout=subprocess.PIPE, stderr=subprocess.PIPE, text=True)
    if p.returncode != 0:
        return {"violations": [{"kind": "harness-error", "sig": "driver", "detail": p.stderr[-800:], "case": None, "theorem": "correspondence:C48"}]}
    verdicts = p.stdout.splitlines()
    violations, ok, distinct, samples = [], 0, set(), []
    for c, v in zip(cases, verdicts):
        kind = v.split(" ", 1)[0]
        if not c.get("triv"):
            distinct.add(hashlib.sha1(json.dumps(c["in"], sort_keys=True).encode()).hexdigest())
        if kind == "ok":
            ok += 1
            if len(samples) < 3 and c["out"]["killed"] and not c.get("triv"):
                samples.append(slim(c))
            continue
        rest = v[len(kind) + 1:]
        sig, _, detail = rest.partition(" :: ")
        if kind == "bad":
            violations.append({"kind": "harness-error", "sig": "driver-bad", "detail": rest, "case": slim(c), "theorem": "correspondence:C48"})
        else:
            violations.append({"kind": kind, "sig": sig.strip(), "detail": detail[:1500], "case": slim(c)})
    if len(verdicts) != len(cases):
        violations.append({"kind": "harness-error", "sig": "driver", "detail": "driver produced %d verdicts for %d cases" % (len(verdicts), len(cases)), "case": None, "theorem": "correspondence:C48"})
    if len(harness_problems) > max(2, len(cases) // 10):
        violations.append({"kind": "harness-error", "sig": "kill-runs", "detail": "; ".join(harness_problems[:5]), "case": None, "theorem": "correspondence:C48"})
    # the concrete failing input (a real file left partially written) first: it becomes the replay
    violations.sort(key=lambda v: 0 if v["kind"] == "specfalse" and v["sig"] == "killed-partial" else 1)
    ctx["ev"]["custom_s"] = round(time.time() - t0, 2)
    return {"violations": violations, "ok": ok, "evaluations": len(cases), "distinct": sorted(distinct), "samples": samples,
            "stats": {"hist": hist},
            "coverage": {"crash_points_hit": crash_cov, "kill_runs": sum(1 for c in cases if c["out"]["killed"]),
                         "inputs": recs, "skipped_inputs": skipped, "harness_notes": harness_problems[:10]}}
