"""C25 flow: build the d2 CLI from the tree under test into the work dir (separate-process renders), then the shared
harness -> driver flow of props/C08/custom.py (incl. the -race binary in the thorough tier)."""
import os, importlib.util, time


def run(ctx):
    here = os.path.dirname(os.path.abspath(__file__))
    spec = importlib.util.spec_from_file_location("custom_c08_shared", os.path.join(here, "..", "C08", "custom.py"))
    m = importlib.util.module_from_spec(spec)
    spec.loader.exec_module(m)
    d2bin = os.path.join(ctx["work"], "d2cli")
    t = time.time()
    rc, out, dt = ctx["run"](["go", "build", "-o", d2bin, "."], cwd=ctx["repo"], env=ctx["goenv"])
    ctx["ev"]["go_build_cli_s"] = round(time.time() - t, 2)
    extra = {}
    if rc == 0:
        extra["C25_D2BIN"] = d2bin
    res = m.run_flow(ctx, extra)
    res["coverage"]["cli_build"] = "ok" if rc == 0 else "failed: " + out[-300:]
    if rc != 0:
        res["violations"].append({"kind": "harness-error", "sig": "cli-build", "detail": "d2 CLI does not build: " + out[-800:],
                                  "case": None, "theorem": "correspondence:C25"})
    return res
