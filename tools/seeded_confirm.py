#!/usr/bin/env python3
"""tools/seeded_confirm.py [names…] — independent confirmation of a seeded change: in a scratch worktree the project builds
with the patch, the demonstration passes without the patch and fails with it. Records 'confirmed' in meta.json.
meta.json needs demo_dest (path of the demo file in the repo) and demo_run (go test args), tests (packages to run)."""
import json, os, subprocess, sys, tempfile, shutil
ROOT = os.path.dirname(os.path.dirname(os.path.abspath(__file__)))
SEEDED = os.path.join(ROOT, "seeded")
env = dict(os.environ, GOFLAGS="-mod=mod", GOPROXY="off"); env.pop("GOTOOLCHAIN", None); env.pop("GOSUMDB", None)
names = sys.argv[1:] or sorted(os.listdir(SEEDED))
for name in names:
    d = os.path.join(SEEDED, name)
    mp = os.path.join(d, "meta.json")
    if not os.path.exists(mp): continue
    meta = json.load(open(mp))
    wt = tempfile.mkdtemp(prefix="d2v-conf-"); os.rmdir(wt)
    subprocess.run(["git", "-C", "/repo", "worktree", "add", "-q", "--detach", wt, "HEAD"], check=True)
    try:
        demo = [f for f in os.listdir(d) if f.startswith("demo")][0]
        dest = os.path.join(wt, meta["demo_dest"])
        os.makedirs(os.path.dirname(dest), exist_ok=True)
        shutil.copyfile(os.path.join(d, demo), dest)
        run = lambda: subprocess.run(["go", "test", "-vet=off", "-count=1"] + meta["demo_run"], cwd=wt, env=env, capture_output=True, text=True)
        r0 = run()
        a = subprocess.run(["git", "-C", wt, "apply", os.path.join(d, "patch.diff")], capture_output=True, text=True)
        b = subprocess.run(["go", "build", "./..."], cwd=wt, env=env, capture_output=True, text=True)
        r1 = run()
        os.remove(dest)
        tests = meta.get("tests", [])
        rt = None
        tests_ok = True
        if tests:
            # the repository's own tests, judged the way the baseline is: no test of BASELINE.stable_pass may stop passing
            # (browser-dependent tests fail in this sandbox with or without any patch and are not in that set)
            rt = subprocess.run(["go", "test", "-json", "-vet=off", "-count=1", "-timeout", "60m"] + tests, cwd=wt, env=env, capture_output=True, text=True)
            stable = set(json.load(open("/root/.vp/BASELINE.json"))["stable_pass"])
            res = {}
            for line in rt.stdout.splitlines():
                try:
                    j = json.loads(line)
                except Exception:
                    continue
                if j.get("Test") and j.get("Action") in ("pass", "fail", "skip"):
                    res[j["Package"] + "::" + j["Test"]] = j["Action"]
            pk = {k.split("::")[0] for k in res}
            broken = sorted(t for t in stable if t.split("::")[0] in pk and res.get(t) != "pass")
            tests_ok = not broken
            if broken:
                print("   stable tests not passing with the patch:", broken[:10])
        ok = r0.returncode == 0 and a.returncode == 0 and b.returncode == 0 and r1.returncode != 0 and tests_ok
        meta["confirmed"] = {"demo_passes_without": r0.returncode == 0, "patch_applies": a.returncode == 0, "builds": b.returncode == 0,
                             "demo_fails_with": r1.returncode != 0, "package_tests_pass_with": None if rt is None else tests_ok,
                             "ran": "go test -vet=off -count=1 " + " ".join(meta["demo_run"]) + (" ; tests: " + " ".join(tests) if tests else ""), "ok": ok}
        json.dump(meta, open(mp, "w"), indent=1)
        print(name, "CONFIRMED" if ok else "NOT CONFIRMED", meta["confirmed"])
    finally:
        subprocess.run(["git", "-C", "/repo", "worktree", "remove", "--force", wt])
