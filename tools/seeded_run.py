#!/usr/bin/env python3
"""tools/seeded_run.py [ids…] — for each seeded/<name>/ (patch.diff + meta.json): make a scratch worktree of /repo
outside /repo and /verif, apply the patch, run the owning property's check against it (D2V_REPO), record whether the
check reported a VIOLATION (and whether with a concrete failing input) in seeded/<name>/result.json, remove the worktree."""
import json, os, subprocess, sys, time, shutil, tempfile
ROOT = os.path.dirname(os.path.dirname(os.path.abspath(__file__)))
SEEDED = os.path.join(ROOT, "seeded")
names = sys.argv[1:] or sorted(d for d in os.listdir(SEEDED) if os.path.exists(os.path.join(SEEDED, d, "patch.diff")))
for name in names:
    d = os.path.join(SEEDED, name)
    meta = json.load(open(os.path.join(d, "meta.json")))
    pid = meta["property"]
    props = meta.get("checks", [pid])
    wt = tempfile.mkdtemp(prefix="d2v-seed-")
    os.rmdir(wt)
    subprocess.run(["git", "-C", "/repo", "worktree", "add", "-q", "--detach", wt, "HEAD"], check=True)
    try:
        r = subprocess.run(["git", "-C", wt, "apply", os.path.join(d, "patch.diff")], capture_output=True, text=True)
        if r.returncode != 0:
            print(name, "PATCH DOES NOT APPLY", r.stderr[:200]); continue
        res = {}
        for p in props:
            t = time.time()
            env = dict(os.environ, D2V_REPO=wt)
            c = subprocess.run(["./check", p, "--tier", "quick", "--seed", "1"], cwd=ROOT, env=env, capture_output=True, text=True)
            vio = [l for l in c.stdout.splitlines() if l.startswith("VIOLATION")]
            res[p] = {"rc": c.returncode, "violations": vio, "concrete": any("no-failing-input-found" not in v for v in vio),
                      "wall_s": round(time.time() - t, 1), "summary": (c.stderr.strip().splitlines() or [""])[-1][:300]}
            # keep a copy of the first replay for the record
            for v in vio[:1]:
                rp = v.split("replay=")[1].split()[0]
                if os.path.exists(rp):
                    shutil.copyfile(rp, os.path.join(d, "replay-%s.json" % p))
            print(name, p, "rc=%d" % c.returncode, "DETECTED" if vio else "MISSED", "(concrete input)" if res[p]["concrete"] else "", res[p]["summary"][:160])
        rp = os.path.join(d, "result.json")
        hist = []
        if os.path.exists(rp):
            old = json.load(open(rp))
            hist = old.get("history", [])
            hist.append({"ran_at": old.get("ran_at"), "outcome": {p: ("detected-concrete" if r.get("concrete") else "detected" if r.get("violations") else "missed") for p, r in old.get("results", {}).items()}})
        json.dump({"seeded": name, "ran_at": time.strftime("%Y-%m-%dT%H:%M:%SZ", time.gmtime()), "results": res, "history": hist}, open(rp, "w"), indent=1)
    finally:
        subprocess.run(["git", "-C", "/repo", "worktree", "remove", "--force", wt])
        # the run regenerated lean/D2V/Gen from the mutated tree: regenerate from /repo
# the runs regenerated lean/D2V/Gen from mutated trees: regenerate the generators of the properties that ran from /repo
gens = set()
for name in names:
    mp = os.path.join(SEEDED, name, "meta.json")
    if os.path.exists(mp):
        m = json.load(open(mp))
        for p in m.get("checks", [m["property"]]):
            e = os.path.join(ROOT, "props", p, "entry.json")
            if os.path.exists(e):
                gens |= set(json.load(open(e)).get("gen", []))
env = dict(os.environ, GOFLAGS="-mod=mod", GOPROXY="off")
for g in sorted(gens):
    subprocess.run(["sh", "-c", "cd translator && go build -o ../.bin/tr-%s ./%s && ../.bin/tr-%s -repo /repo -out ../lean/D2V/Gen >/dev/null" % (g, g, g)], cwd=ROOT, env=env)
