#!/usr/bin/env python3
"""Print the Markdown table of seeded changes (seeded/*/meta.json + result.json) for DESIGN.md §9."""
import json, os
ROOT = os.path.dirname(os.path.dirname(os.path.abspath(__file__)))
S = os.path.join(ROOT, "seeded")
def oc(r):
    return "detected, concrete input" if r.get("concrete") else ("detected, no-failing-input-found" if r.get("violations") else "MISSED")
print("| Seeded change | Breaks | What it needs to manifest | Confirmed | Check outcome (latest) | Earlier outcomes |")
print("|---|---|---|---|---|---|")
def key(n):
    a, b = n.split("-"); return (int(a[1:]), int(b))
for n in sorted((d for d in os.listdir(S) if os.path.exists(os.path.join(S, d, "meta.json"))), key=key):
    m = json.load(open(os.path.join(S, n, "meta.json")))
    rp = os.path.join(S, n, "result.json")
    res, hist = "not run", ""
    if os.path.exists(rp):
        r = json.load(open(rp))
        res = "; ".join("%s: %s" % (p, oc(v)) for p, v in r["results"].items())
        hist = "; ".join(",".join(h["outcome"].values()) for h in r.get("history", []))
    conf = m.get("confirmed", {}).get("ok")
    print("| %s | %s | %s | %s | %s | %s |" % (n, m["what"].replace("|", "/")[:230], m["needs"].replace("|", "/")[:200], "yes" if conf else ("no" if conf is False else "?"), res, hist))
