#!/usr/bin/env python3
"""tools/sweep.py [--tier T] [--seeds 1,2,3] [ids…]  — run ./check for each registered (ready) property and seed; summary table."""
import json, os, subprocess, sys, time, argparse
ROOT = os.path.dirname(os.path.dirname(os.path.abspath(__file__)))
ap = argparse.ArgumentParser()
ap.add_argument("ids", nargs="*")
ap.add_argument("--tier", default="quick")
ap.add_argument("--seeds", default="1")
ap.add_argument("--all", action="store_true", help="include entries that are not ready")
a = ap.parse_args()
ids = a.ids
if not ids:
    for pid in sorted(os.listdir(os.path.join(ROOT, "props"))):
        e = os.path.join(ROOT, "props", pid, "entry.json")
        if os.path.exists(e) and (a.all or json.load(open(e)).get("ready")):
            ids.append(pid)
bad = 0
for pid in ids:
    for seed in a.seeds.split(","):
        t = time.time()
        p = subprocess.run(["./check", pid, "--tier", a.tier, "--seed", seed], cwd=ROOT, capture_output=True, text=True)
        last = (p.stderr.strip().splitlines() or [""])[-1]
        vio = [l for l in p.stdout.splitlines() if l.startswith("VIOLATION") or l.startswith("KNOWN-FINDING")]
        print("%s seed=%s rc=%d %.0fs %s" % (pid, seed, p.returncode, time.time() - t, last[:200]))
        for v in vio[:6]:
            print("     ", v[:200])
        if p.returncode != 0:
            bad += 1
        sys.stdout.flush()
sys.exit(1 if bad else 0)
