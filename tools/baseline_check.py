#!/usr/bin/env python3
"""Run the repository's baseline test command (guard OFF) on a tree and report every test of
BASELINE.json's stable_pass set that does not pass.  usage: baseline_check.py [repo_dir] [pkg patterns…]"""
import json, subprocess, sys, os
repo = sys.argv[1] if len(sys.argv) > 1 else "/repo"
pkgs = sys.argv[2:] or ["./..."]
base = json.load(open("/root/.vp/BASELINE.json"))
stable = set(base["stable_pass"])
env = dict(os.environ, GOFLAGS="-mod=mod", GOPROXY="off")
env.pop("GOTOOLCHAIN", None); env.pop("GOSUMDB", None)
p = subprocess.Popen(["go", "test", "-json", "-vet=off", "-count=1", "-timeout", "25m"] + pkgs, cwd=repo, env=env,
                     stdout=subprocess.PIPE, stderr=subprocess.DEVNULL, text=True)
res = {}
for line in p.stdout:
    try:
        j = json.loads(line)
    except Exception:
        continue
    if j.get("Test") and j.get("Action") in ("pass", "fail", "skip"):
        res[j["Package"] + "::" + j["Test"]] = j["Action"]
p.wait()
seen_pkgs = {k.split("::")[0] for k in res}
want = {t for t in stable if t.split("::")[0] in seen_pkgs} if pkgs != ["./..."] else stable
bad = sorted(t for t in want if res.get(t) != "pass")
print("stable tests expected: %d, passing: %d, not passing: %d" % (len(want), len(want) - len(bad), len(bad)))
for t in bad[:50]:
    print("  NOT-PASSING", t, res.get(t))
sys.exit(1 if bad else 0)
