#!/usr/bin/env python3
"""tools/register.py Cxx… — validate a property's check on /repo (seed 1, quick) with its findings merged; on exit 0 mark
the entry ready, rebuild known_findings.json and MANIFEST.json; otherwise leave it unregistered and print why."""
import json, os, subprocess, sys, time

def atomic_dump(obj, path):
    tmp = path + ".tmp%d" % os.getpid()
    with open(tmp, "w") as f:
        json.dump(obj, f, indent=1)
    os.replace(tmp, path)
ROOT = os.path.dirname(os.path.dirname(os.path.abspath(__file__)))
for pid in sys.argv[1:]:
    e = os.path.join(ROOT, "props", pid, "entry.json")
    j = json.load(open(e))
    was = j.get("ready", False)
    j["ready"] = True
    atomic_dump(j, e)
    subprocess.run([os.path.join(ROOT, "tools", "merge_findings.py")], capture_output=True)
    t = time.time()
    p = subprocess.run(["./check", pid], cwd=ROOT, capture_output=True, text=True)
    last = (p.stderr.strip().splitlines() or [""])[-1]
    ok = p.returncode == 0
    # evidence must validate
    print("%s rc=%d %.0fs %s" % (pid, p.returncode, time.time() - t, last[:220]))
    for l in p.stdout.splitlines()[:8]:
        print("    ", l[:220])
    if not ok:
        j["ready"] = was
        atomic_dump(j, e)
        subprocess.run([os.path.join(ROOT, "tools", "merge_findings.py")], capture_output=True)
subprocess.run([os.path.join(ROOT, "mkmanifest")])
