#!/usr/bin/env python3
"""Rebuild known_findings.json's "findings" list from props/<id>/findings.json of the registered (ready) properties.
The "fixed" list and comment are preserved. Run by the orchestrator at registration time, never by a check."""
import json, os

def atomic_dump(obj, path):
    tmp = path + ".tmp%d" % os.getpid()
    with open(tmp, "w") as f:
        json.dump(obj, f, indent=1)
    os.replace(tmp, path)

ROOT = os.path.dirname(os.path.dirname(os.path.abspath(__file__)))
kf = json.load(open(os.path.join(ROOT, "known_findings.json")))
out = []
for pid in sorted(os.listdir(os.path.join(ROOT, "props"))):
    e = os.path.join(ROOT, "props", pid, "entry.json")
    f = os.path.join(ROOT, "props", pid, "findings.json")
    if os.path.exists(e) and os.path.exists(f) and json.load(open(e)).get("ready"):
        for x in json.load(open(f)):
            x.setdefault("status", "open")
            assert x["property"] == pid, (pid, x)
            if x["status"] == "open":
                out.append(x)
kf["findings"] = out
atomic_dump(kf, os.path.join(ROOT, "known_findings.json"))
print("open findings:", len(out))
