// Package tl — helpers shared by the tie-R generators: parse /repo sources with go/ast, find
// functions / switch clauses / literals by structure (never by line number), render Lean, and
// write lean/D2V/Gen/<Name>.lean only when the content changed.
//
// A generator is `func main() { tl.Main("Name", gen) }`; it prints
//
//	GEN <fact>                       one line per extracted fact (copied into the evidence file)
//	EXTRACTOR-FAILED <Name> <why>    and exits 1 when a pattern it expects is gone
package tl

import (
	"flag"
	"fmt"
	"go/ast"
	"go/parser"
	"go/printer"
	"go/token"
	"os"
	"path/filepath"
	"sort"
	"strconv"
	"strings"
)

type T struct {
	Name  string
	Repo  string
	Out   string
	Fset  *token.FileSet
	files map[string]*ast.File
	Lean  strings.Builder
	Facts []string
}

type failure struct{ why string }

// Fail aborts the generator: the pattern it expects is not in the source any more.
func (t *T) Fail(format string, a ...any) { panic(failure{fmt.Sprintf(format, a...)}) }

func (t *T) Fact(format string, a ...any) { t.Facts = append(t.Facts, fmt.Sprintf(format, a...)) }

func (t *T) P(format string, a ...any) { fmt.Fprintf(&t.Lean, format, a...) }

// File parses (once) a file of the repo given by its path relative to the repo root.
func (t *T) File(rel string) *ast.File {
	if f, ok := t.files[rel]; ok {
		return f
	}
	f, err := parser.ParseFile(t.Fset, filepath.Join(t.Repo, rel), nil, parser.ParseComments)
	if err != nil {
		t.Fail("cannot parse %s: %v", rel, err)
	}
	t.files[rel] = f
	return f
}

// Func finds a top-level function or method (recv may be "" or the receiver type name without *).
func (t *T) Func(rel, recv, name string) *ast.FuncDecl {
	for _, d := range t.File(rel).Decls {
		fd, ok := d.(*ast.FuncDecl)
		if !ok || fd.Name.Name != name {
			continue
		}
		r := ""
		if fd.Recv != nil && len(fd.Recv.List) == 1 {
			switch x := fd.Recv.List[0].Type.(type) {
			case *ast.StarExpr:
				if id, ok := x.X.(*ast.Ident); ok {
					r = id.Name
				}
			case *ast.Ident:
				r = x.Name
			}
		}
		if r == recv {
			return fd
		}
	}
	t.Fail("function %s.%s not found in %s", recv, name, rel)
	return nil
}

// Var finds the value expression of a package-level `var name = …` or `const name = …`.
func (t *T) Var(rel, name string) ast.Expr {
	for _, d := range t.File(rel).Decls {
		gd, ok := d.(*ast.GenDecl)
		if !ok {
			continue
		}
		for _, s := range gd.Specs {
			vs, ok := s.(*ast.ValueSpec)
			if !ok {
				continue
			}
			for i, n := range vs.Names {
				if n.Name == name && i < len(vs.Values) {
					return vs.Values[i]
				}
			}
		}
	}
	t.Fail("variable %s not found in %s", name, rel)
	return nil
}

// Src renders a node back to Go source (one line).
func (t *T) Src(n ast.Node) string {
	var b strings.Builder
	printer.Fprint(&b, t.Fset, n)
	return strings.Join(strings.Fields(b.String()), " ")
}

// StringLit returns the value of a basic string literal.
func (t *T) StringLit(e ast.Expr) (string, bool) {
	bl, ok := e.(*ast.BasicLit)
	if !ok || bl.Kind != token.STRING {
		return "", false
	}
	s, err := strconv.Unquote(bl.Value)
	if err != nil {
		return "", false
	}
	return s, true
}

// StringElems returns the string elements of a composite literal: []string{…} elements, or the keys of a
// map[string]…{…}; identifiers are resolved through consts (name → value) when given.
func (t *T) StringElems(e ast.Expr, consts map[string]string) []string {
	cl, ok := e.(*ast.CompositeLit)
	if !ok {
		t.Fail("expected a composite literal, got %s", t.Src(e))
	}
	var out []string
	for _, el := range cl.Elts {
		k := el
		if kv, ok := el.(*ast.KeyValueExpr); ok {
			k = kv.Key
		}
		if s, ok := t.StringLit(k); ok {
			out = append(out, s)
			continue
		}
		if id, ok := k.(*ast.Ident); ok && consts != nil {
			if v, ok := consts[id.Name]; ok {
				out = append(out, v)
				continue
			}
		}
		if se, ok := k.(*ast.SelectorExpr); ok && consts != nil {
			if v, ok := consts[se.Sel.Name]; ok {
				out = append(out, v)
				continue
			}
		}
		t.Fail("element %s is not a string literal or known constant", t.Src(k))
	}
	return out
}

// StringConsts collects every `const X = "…"` / `X = "…"` of a file (also inside const blocks).
func (t *T) StringConsts(rel string) map[string]string {
	m := map[string]string{}
	for _, d := range t.File(rel).Decls {
		gd, ok := d.(*ast.GenDecl)
		if !ok || (gd.Tok != token.CONST && gd.Tok != token.VAR) {
			continue
		}
		for _, s := range gd.Specs {
			vs := s.(*ast.ValueSpec)
			for i, n := range vs.Names {
				if i < len(vs.Values) {
					if v, ok := t.StringLit(vs.Values[i]); ok {
						m[n.Name] = v
					}
				}
			}
		}
	}
	return m
}

// CaseClauses returns, for the first `switch <tag>` statement of a function body whose case labels are string
// literals, the map label → clause (a clause with several labels appears under each).
func (t *T) CaseClauses(body *ast.BlockStmt, want string) map[string]*ast.CaseClause {
	var found map[string]*ast.CaseClause
	ast.Inspect(body, func(n ast.Node) bool {
		if found != nil {
			return false
		}
		sw, ok := n.(*ast.SwitchStmt)
		if !ok {
			return true
		}
		m := map[string]*ast.CaseClause{}
		for _, st := range sw.Body.List {
			cc := st.(*ast.CaseClause)
			for _, l := range cc.List {
				if s, ok := t.StringLit(l); ok {
					m[s] = cc
				}
			}
		}
		if _, ok := m[want]; ok {
			found = m
			return false
		}
		return true
	})
	if found == nil {
		t.Fail("no switch with a case %q found", want)
	}
	return found
}

// LeanString renders a Lean string literal.
func LeanString(s string) string {
	var b strings.Builder
	b.WriteByte('"')
	for _, r := range s {
		switch {
		case r == '"':
			b.WriteString("\\\"")
		case r == '\\':
			b.WriteString("\\\\")
		case r == '\n':
			b.WriteString("\\n")
		case r == '\t':
			b.WriteString("\\t")
		case r == '\r':
			b.WriteString("\\r")
		case r < 0x20 || r == 0x7f:
			fmt.Fprintf(&b, "\\x%02x", r)
		default:
			b.WriteRune(r)
		}
	}
	b.WriteByte('"')
	return b.String()
}

func LeanStringList(xs []string) string {
	q := make([]string, len(xs))
	for i, x := range xs {
		q[i] = LeanString(x)
	}
	return "[" + strings.Join(q, ", ") + "]"
}

func SortedKeys[V any](m map[string]V) []string {
	ks := make([]string, 0, len(m))
	for k := range m {
		ks = append(ks, k)
	}
	sort.Strings(ks)
	return ks
}

// LeanIdent turns "stroke-width" into "strokeWidth", "3d" into "threeD".
func LeanIdent(s string) string {
	if s == "3d" {
		return "threeD"
	}
	parts := strings.FieldsFunc(s, func(r rune) bool { return r == '-' || r == '_' || r == ' ' || r == '.' })
	for i := range parts {
		if i > 0 && parts[i] != "" {
			parts[i] = strings.ToUpper(parts[i][:1]) + parts[i][1:]
		}
	}
	return strings.Join(parts, "")
}

func Main(name string, gen func(t *T)) {
	repo := flag.String("repo", "/repo", "repository under test")
	out := flag.String("out", "", "directory of D2V/Gen")
	flag.Parse()
	t := &T{Name: name, Repo: *repo, Out: *out, Fset: token.NewFileSet(), files: map[string]*ast.File{}}
	failed := func() (why string) {
		defer func() {
			if r := recover(); r != nil {
				if f, ok := r.(failure); ok {
					why = f.why
					return
				}
				panic(r)
			}
		}()
		gen(t)
		return ""
	}()
	if failed != "" {
		fmt.Printf("EXTRACTOR-FAILED %s %s\n", name, failed)
		os.Exit(1)
	}
	content := "-- GENERATED by translator/" + strings.ToLower(name) + " from " + "the repository under test; do not edit.\n" + t.Lean.String()
	path := filepath.Join(*out, name+".lean")
	old, _ := os.ReadFile(path)
	if string(old) != content {
		os.MkdirAll(*out, 0o755)
		tmp := path + ".tmp"
		if err := os.WriteFile(tmp, []byte(content), 0o644); err != nil {
			fmt.Println("EXTRACTOR-FAILED", name, err)
			os.Exit(1)
		}
		os.Rename(tmp, path)
	}
	for _, f := range t.Facts {
		fmt.Println("GEN", f)
	}
}
