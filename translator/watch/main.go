// Generator "Watch" (tie R for C44/C45): the structural facts of d2cli/watch.go the Lean model encodes — channel
// capacities, and for requestCompile / broadcast / handleWatch / close / writeLoop the order of the statements that
// matter for the protocol (locks, the `closing` test, WaitGroup calls, channel operations), as token lists.
package main

import (
	"go/ast"
	"go/token"
	"strconv"
	"strings"

	"d2v/translator/tl"
)

const src = "d2cli/watch.go"

func main() { tl.Main("Watch", gen) }

// simple statements that matter, by their source text
var table = map[string]string{
	"w.wsclientsMu.Lock()":         "lock",
	"w.wsclientsMu.Unlock()":       "unlock",
	"defer w.wsclientsMu.Unlock()": "defer-unlock",
	"w.resMu.Lock()":               "reslock",
	"w.resMu.Unlock()":             "resunlock",
	"defer w.resMu.Unlock()":       "defer-resunlock",
	"w.closing = true":             "closing=true",
	"w.wsclientsWG.Add(1)":         "wg.add",
	"w.wsclientsWG.Done()":         "wg.done",
	"defer w.wsclientsWG.Done()":   "defer-wg.done",
	"w.wsclientsWG.Wait()":         "wg.wait",
	"w.cancel()":                   "cancel",
	"w.res = res":                  "res=",
	"w.wsclients[cl] = struct{}{}": "map-add",
	"delete(w.wsclients, cl)":      "map-del",
	"res := cl.w.getRes()":         "getres",
	"return w.res":                 "return-res",
	"err := cl.write(ctx, res)":    "write",
	"_ = cl.writeLoop(ctx)":        "writeLoop",
}

func isTrace(t *tl.T, n ast.Node) bool { return strings.HasPrefix(t.Src(n), "verifTrace(") || strings.HasPrefix(t.Src(n), "defer verifTrace(") }

func commTok(t *tl.T, c *ast.CommClause) string {
	if c.Comm == nil {
		return "default"
	}
	switch x := c.Comm.(type) {
	case *ast.SendStmt:
		return "send(" + t.Src(x.Chan) + ")"
	case *ast.ExprStmt:
		if u, ok := x.X.(*ast.UnaryExpr); ok && u.Op == token.ARROW {
			return "recv(" + t.Src(u.X) + ")"
		}
	case *ast.AssignStmt:
		if len(x.Rhs) == 1 {
			if u, ok := x.Rhs[0].(*ast.UnaryExpr); ok && u.Op == token.ARROW {
				return "recv(" + t.Src(u.X) + ")"
			}
		}
	}
	return "comm(" + t.Src(c.Comm) + ")"
}

func skel(t *tl.T, stmts []ast.Stmt, out *[]string) {
	for _, st := range stmts {
		if isTrace(t, st) {
			continue
		}
		if tok, ok := table[t.Src(st)]; ok {
			*out = append(*out, tok)
			continue
		}
		switch x := st.(type) {
		case *ast.IfStmt:
			if x.Init != nil {
				skel(t, []ast.Stmt{x.Init}, out)
			}
			cond := t.Src(x.Cond)
			var inner []string
			skel(t, x.Body.List, &inner)
			var els []string
			if x.Else != nil {
				skel(t, []ast.Stmt{x.Else}, &els)
			}
			if cond == "w.closing" {
				*out = append(*out, "if-closing{")
				*out = append(*out, inner...)
				*out = append(*out, "}")
			} else if len(inner)+len(els) > 0 {
				*out = append(*out, "if{")
				*out = append(*out, inner...)
				*out = append(*out, "}")
				*out = append(*out, els...)
			}
		case *ast.BlockStmt:
			skel(t, x.List, out)
		case *ast.ReturnStmt:
			*out = append(*out, "return")
		case *ast.GoStmt:
			if fl, ok := x.Call.Fun.(*ast.FuncLit); ok {
				*out = append(*out, "go{")
				skel(t, fl.Body.List, out)
				*out = append(*out, "}")
			}
		case *ast.DeferStmt:
			if fl, ok := x.Call.Fun.(*ast.FuncLit); ok {
				var inner []string
				skel(t, fl.Body.List, &inner)
				if len(inner) > 0 {
					*out = append(*out, "defer{")
					*out = append(*out, inner...)
					*out = append(*out, "}")
				}
			}
		case *ast.RangeStmt:
			var inner []string
			skel(t, x.Body.List, &inner)
			if len(inner) > 0 {
				*out = append(*out, "range("+t.Src(x.X)+"){")
				*out = append(*out, inner...)
				*out = append(*out, "}")
			}
		case *ast.ForStmt:
			var inner []string
			skel(t, x.Body.List, &inner)
			if len(inner) > 0 {
				*out = append(*out, "for{")
				*out = append(*out, inner...)
				*out = append(*out, "}")
			}
		case *ast.SelectStmt:
			var cs []string
			var inner []string
			for _, c := range x.Body.List {
				cc := c.(*ast.CommClause)
				cs = append(cs, commTok(t, cc))
				skel(t, cc.Body, &inner)
			}
			*out = append(*out, "select["+strings.Join(cs, ",")+"]")
			*out = append(*out, inner...)
		case *ast.AssignStmt:
			// c, err := websocket.Accept(...)
			if len(x.Rhs) == 1 {
				if c, ok := x.Rhs[0].(*ast.CallExpr); ok && t.Src(c.Fun) == "websocket.Accept" {
					*out = append(*out, "accept")
				}
			}
		}
	}
}

func chanCap(t *tl.T, n ast.Node, field string) int {
	cap := -1
	ast.Inspect(n, func(x ast.Node) bool {
		kv, ok := x.(*ast.KeyValueExpr)
		if !ok || t.Src(kv.Key) != field {
			return true
		}
		c, ok := kv.Value.(*ast.CallExpr)
		if !ok || t.Src(c.Fun) != "make" {
			return true
		}
		if len(c.Args) == 1 {
			cap = 0
		} else if len(c.Args) == 2 {
			if bl, ok := c.Args[1].(*ast.BasicLit); ok {
				cap, _ = strconv.Atoi(bl.Value)
			}
		}
		return true
	})
	if cap < 0 {
		t.Fail("channel field %s: make(chan …) not found", field)
	}
	return cap
}

func gen(t *tl.T) {
	fn := func(recv, name string) []string {
		var out []string
		skel(t, t.Func(src, recv, name).Body.List, &out)
		if len(out) == 0 {
			t.Fail("no protocol statement recognised in %s.%s", recv, name)
		}
		return out
	}
	compileCap := chanCap(t, t.Func(src, "", "newWatcher"), "compileCh")
	resultsCap := chanCap(t, t.Func(src, "watcher", "handleWatch"), "resultsCh")
	t.P("namespace D2V.Gen.Watch\n")
	t.P("def compileChCap : Nat := %d\ndef resultsChCap : Nat := %d\n", compileCap, resultsCap)
	for _, f := range [][2]string{{"watcher", "requestCompile"}, {"watcher", "broadcast"}, {"watcher", "getRes"},
		{"watcher", "handleWatch"}, {"watcher", "close"}, {"wsclient", "writeLoop"}} {
		sk := fn(f[0], f[1])
		t.P("/-- protocol skeleton of (%s).%s -/\ndef %s : List String := %s\n", f[0], f[1], f[1], tl.LeanStringList(sk))
		t.Fact("%s: %s", f[1], strings.Join(sk, " "))
	}
	t.P("end D2V.Gen.Watch\n")
	t.Fact("compileCh capacity %d, resultsCh capacity %d", compileCap, resultsCap)
}
