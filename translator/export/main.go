// Generator "Export" (tie R for C28): re-reads d2exporter/export.go and emits, as Lean,
//   - the style-relevant statements of `toShape` in source order (calls of applyStyles / applyTheme, the assignment
//     `shape.Color = text.GetColor(shape.Italic)`, the C4 font-colour block) — so that removing or moving the second
//     applyStyles changes a Lean definition;
//   - the guarded assignments of `applyStyles`: (style field, shape field, reader) for every
//     `if obj.Style.X != nil { shape.Y[, _] = [strconv.F(]obj.Style.X.Value[, 64)] }`;
//   - the same table for `toConnection` (`if edge.Style.X != nil { connection.Y … }`);
//   - the C4 blocks of `applyTheme`, of `toShape` and of `toConnection`: every assignment with the `Style.X == nil`
//     guard that protects it (a C4 assignment without its guard would overwrite a user style).
package main

import (
	"go/ast"
	"regexp"
	"strings"

	"d2v/translator/tl"
)

func main() { tl.Main("Export", gen) }

type row struct{ style, field, reader string }

var guardRe = regexp.MustCompile(`^(obj|edge)\.(Style|IconStyle)\.(\w+) != nil$`)

func reader(t *tl.T, rhs ast.Expr, owner, group, field string) string {
	src := t.Src(rhs)
	val := owner + "." + group + "." + field + ".Value"
	switch src {
	case val:
		return "verbatim"
	case "strconv.Atoi(" + val + ")":
		return "atoi"
	case "strconv.ParseBool(" + val + ")":
		return "parseBool"
	case "strconv.ParseFloat(" + val + ", 64)":
		return "parseFloat"
	}
	t.Fail("unexpected right-hand side %s under guard on %s", src, val)
	return ""
}

// table collects `if <owner>.Style.X != nil { <target>.Y … = … }` statements of a block (top level only).
func table(t *tl.T, stmts []ast.Stmt, owner, target string) []row {
	var out []row
	for _, st := range stmts {
		ifs, ok := st.(*ast.IfStmt)
		if !ok {
			continue
		}
		m := guardRe.FindStringSubmatch(t.Src(ifs.Cond))
		if m == nil || m[1] != owner {
			continue
		}
		if len(ifs.Body.List) != 1 {
			t.Fail("guard %s protects %d statements", t.Src(ifs.Cond), len(ifs.Body.List))
		}
		as, ok := ifs.Body.List[0].(*ast.AssignStmt)
		if !ok || len(as.Rhs) != 1 {
			t.Fail("guard %s does not protect a single assignment", t.Src(ifs.Cond))
		}
		lhs := t.Src(as.Lhs[0])
		if !strings.HasPrefix(lhs, target+".") {
			t.Fail("guard %s assigns %s", t.Src(ifs.Cond), lhs)
		}
		if len(as.Lhs) == 2 && t.Src(as.Lhs[1]) != "_" {
			t.Fail("guard %s: second result is %s", t.Src(ifs.Cond), t.Src(as.Lhs[1]))
		}
		style := m[3]
		if m[2] == "IconStyle" {
			style = "Icon" + style
		}
		out = append(out, row{style, strings.TrimPrefix(lhs, target+"."), reader(t, as.Rhs[0], owner, m[2], m[3])})
	}
	return out
}

// c4Guards walks a block and returns, for every assignment `target.Y = …` nested in an `if owner.Style.X == nil`,
// the pair (X, Y); an assignment to target.* that is not under such a guard is returned with X = "".
func c4Guards(t *tl.T, block *ast.BlockStmt, owner, target string) [][2]string {
	var out [][2]string
	var walk func(n ast.Stmt, guard string)
	walk = func(n ast.Stmt, guard string) {
		switch x := n.(type) {
		case *ast.BlockStmt:
			for _, s := range x.List {
				walk(s, guard)
			}
		case *ast.IfStmt:
			g := guard
			if m := regexp.MustCompile(`^` + owner + `\.Style\.(\w+) == nil$`).FindStringSubmatch(t.Src(x.Cond)); m != nil {
				g = m[1]
			}
			walk(x.Body, g)
			if x.Else != nil {
				walk(x.Else, guard)
			}
		case *ast.AssignStmt:
			for _, l := range x.Lhs {
				if s := t.Src(l); strings.HasPrefix(s, target+".") {
					out = append(out, [2]string{guard, strings.TrimPrefix(s, target+".")})
				}
			}
		}
	}
	walk(block, "")
	return out
}

func gen(t *tl.T) {
	const f = "d2exporter/export.go"
	as := t.Func(f, "", "applyStyles")
	shapeTable := table(t, as.Body.List, "obj", "shape")
	if len(shapeTable) < 10 {
		t.Fail("applyStyles: only %d guarded assignments found", len(shapeTable))
	}
	// the else-branch of the Fill guard (text shapes get a transparent fill)
	textFill := false
	for _, st := range as.Body.List {
		if ifs, ok := st.(*ast.IfStmt); ok && t.Src(ifs.Cond) == "obj.Style.Fill != nil" && ifs.Else != nil {
			e := t.Src(ifs.Else)
			if strings.Contains(e, "obj.Shape.Value == d2target.ShapeText") && strings.Contains(e, `shape.Fill = "transparent"`) {
				textFill = true
			} else {
				t.Fail("applyStyles: unexpected else branch of the Fill guard: %s", e)
			}
		}
	}

	ts := t.Func(f, "", "toShape")
	var steps []string
	animated := false
	for _, st := range ts.Body.List {
		src := t.Src(st)
		switch {
		case src == "applyStyles(shape, obj)":
			steps = append(steps, "applyStyles")
		case src == "applyTheme(shape, obj, g.Theme)":
			steps = append(steps, "applyTheme")
		case src == "shape.Color = text.GetColor(shape.Italic)":
			steps = append(steps, "textColor")
		case strings.HasPrefix(src, "if g.Theme != nil && g.Theme.SpecialRules.C4 {"):
			steps = append(steps, "c4FontColor")
			for _, g := range c4Guards(t, st.(*ast.IfStmt).Body, "obj", "shape") {
				if g[0] != "FontColor" || g[1] != "Color" {
					t.Fail("toShape: C4 block assigns shape.%s under guard %q", g[1], g[0])
				}
			}
		case strings.HasPrefix(src, "if obj.Style.Animated != nil {"):
			animated = strings.Contains(src, "shape.Animated, _ = strconv.ParseBool(obj.Style.Animated.Value)")
		default:
			// any other statement that calls applyStyles/applyTheme in a form we do not know is an error
			if strings.Contains(src, "applyStyles(") || strings.Contains(src, "applyTheme(") {
				t.Fail("toShape: unexpected use of applyStyles/applyTheme: %s", src)
			}
		}
	}
	if len(steps) == 0 {
		t.Fail("toShape: no pipeline statement found")
	}
	if !animated {
		t.Fail("toShape: `if obj.Style.Animated != nil { shape.Animated, _ = strconv.ParseBool(…) }` not found")
	}
	t.Fact("toShape pipeline: %s; applyStyles: %d guarded assignments", strings.Join(steps, " → "), len(shapeTable))

	at := t.Func(f, "", "applyTheme")
	var themeC4 [][2]string
	ast.Inspect(at.Body, func(n ast.Node) bool {
		ifs, ok := n.(*ast.IfStmt)
		if !ok || !strings.Contains(t.Src(ifs.Cond), "theme.SpecialRules.C4") {
			return true
		}
		themeC4 = append(themeC4, c4Guards(t, ifs.Body, "obj", "shape")...)
		return false
	})
	if len(themeC4) == 0 {
		t.Fail("applyTheme: no C4 block found")
	}

	tc := t.Func(f, "", "toConnection")
	connTable := table(t, tc.Body.List, "edge", "connection")
	var connC4 [][2]string
	for _, st := range tc.Body.List {
		if ifs, ok := st.(*ast.IfStmt); ok && strings.Contains(t.Src(ifs.Cond), "theme.SpecialRules.C4") {
			connC4 = append(connC4, c4Guards(t, ifs.Body, "edge", "connection")...)
		}
	}
	if len(connTable) < 8 || len(connC4) == 0 {
		t.Fail("toConnection: %d guarded assignments, %d C4 assignments", len(connTable), len(connC4))
	}
	t.Fact("toConnection: %d guarded assignments; C4 guards: applyTheme %d, toConnection %d", len(connTable), len(themeC4), len(connC4))

	t.P("import D2V.Model.ExportSteps\nnamespace D2V.Gen.Export\nopen D2V.Export\n\n")
	var ss []string
	for _, s := range steps {
		ss = append(ss, "Step."+s)
	}
	t.P("/-- style-relevant statements of toShape, in source order -/\ndef toShapeSteps : List Step := [%s]\n\n", strings.Join(ss, ", "))
	pr := func(name string, rows []row) {
		var xs []string
		for _, r := range rows {
			xs = append(xs, "("+tl.LeanString(r.style)+", "+tl.LeanString(r.field)+", Reader."+r.reader+")")
		}
		t.P("def %s : List (String × String × Reader) := [%s]\n\n", name, strings.Join(xs, ", "))
	}
	t.P("/-- applyStyles: (style field, shape field, reader) of every guarded assignment, in source order -/\n")
	pr("applyStylesTable", shapeTable)
	t.P("/-- applyStyles gives text shapes a transparent fill when no fill is set -/\ndef applyStylesTextFill : Bool := %v\n\n", textFill)
	t.P("/-- toConnection: (style field, connection field, reader) of every guarded assignment, in source order -/\n")
	pr("toConnectionTable", connTable)
	pg := func(name string, gs [][2]string) {
		var xs []string
		for _, g := range gs {
			xs = append(xs, "("+tl.LeanString(g[0])+", "+tl.LeanString(g[1])+")")
		}
		t.P("def %s : List (String × String) := [%s]\n\n", name, strings.Join(xs, ", "))
	}
	t.P("/-- C4 blocks: (style field whose absence guards the assignment — \"\" when unguarded, field assigned) -/\n")
	pg("applyThemeC4", themeC4)
	pg("toConnectionC4", connC4)
	t.P("end D2V.Gen.Export\n")
}
