// Tie R for C09/C10/C11: the reserved-keyword tables of d2ast/keywords.go (as unioned by its init) and the rule by which
// d2ir.(*Map).createEdge2 numbers a new connection (count of existing equal connections, or one more than the largest
// existing index).
package main

import (
	"go/ast"
	"go/token"
	"sort"

	"d2v/translator/tl"
)

const kwFile = "d2ast/keywords.go"

func table(t *tl.T, name string) []string {
	ks := t.StringElems(t.Var(kwFile, name), nil)
	sort.Strings(ks)
	t.Fact("%s: %d keywords", name, len(ks))
	return ks
}

func union(xs ...[]string) []string {
	m := map[string]bool{}
	for _, x := range xs {
		for _, k := range x {
			m[k] = true
		}
	}
	return tl.SortedKeys(m)
}

// the init() of keywords.go must still build ReservedKeywords / CompositeReservedKeywords by the unions the model assumes
func checkInit(t *tl.T) {
	fd := t.Func(kwFile, "", "init")
	type rng struct{ src, dst string }
	var got []rng
	ast.Inspect(fd.Body, func(n ast.Node) bool {
		rs, ok := n.(*ast.RangeStmt)
		if !ok {
			return true
		}
		src, ok := rs.X.(*ast.Ident)
		if !ok {
			return true
		}
		for _, st := range rs.Body.List {
			as, ok := st.(*ast.AssignStmt)
			if !ok || len(as.Lhs) != 1 {
				continue
			}
			ix, ok := as.Lhs[0].(*ast.IndexExpr)
			if !ok {
				continue
			}
			if dst, ok := ix.X.(*ast.Ident); ok {
				got = append(got, rng{src.Name, dst.Name})
			}
		}
		return true
	})
	want := []rng{{"SimpleReservedKeywords", "ReservedKeywords"}, {"StyleKeywords", "ReservedKeywords"},
		{"ReservedKeywordHolders", "CompositeReservedKeywords"}, {"BoardKeywords", "CompositeReservedKeywords"},
		{"CompositeReservedKeywords", "ReservedKeywords"}}
	for _, w := range want {
		found := false
		for _, g := range got {
			if g == w {
				found = true
			}
		}
		if !found {
			t.Fail("keywords.go init no longer copies %s into %s", w.src, w.dst)
		}
	}
	t.Fact("init unions: %d copy loops as expected", len(want))
}

// how createEdge2 computes the index of a new edge
func indexRule(t *tl.T) string {
	fd := t.Func("d2ir/d2ir.go", "Map", "createEdge2")
	rule := ""
	loopUpdates := false
	ast.Inspect(fd.Body, func(n ast.Node) bool {
		switch x := n.(type) {
		case *ast.AssignStmt:
			if len(x.Lhs) == 1 && len(x.Rhs) == 1 {
				if id, ok := x.Lhs[0].(*ast.Ident); ok && id.Name == "index" && x.Tok == token.DEFINE {
					if t.Src(x.Rhs[0]) == "len(ea)" {
						rule = "count"
					} else if t.Src(x.Rhs[0]) == "0" {
						rule = "zero"
					} else {
						t.Fail("createEdge2: index := %s is not a recognised rule", t.Src(x.Rhs[0]))
					}
				}
			}
		case *ast.RangeStmt:
			if id, ok := x.X.(*ast.Ident); ok && id.Name == "ea" {
				ast.Inspect(x.Body, func(m ast.Node) bool {
					if as, ok := m.(*ast.AssignStmt); ok && len(as.Lhs) == 1 {
						if id, ok := as.Lhs[0].(*ast.Ident); ok && id.Name == "index" && t.Src(as.Rhs[0]) == "*e.ID.Index + 1" {
							loopUpdates = true
						}
					}
					return true
				})
			}
		}
		return true
	})
	switch {
	case rule == "count" && !loopUpdates:
		t.Fact("createEdge2 index rule: count (index := len(ea))")
		return "count"
	case rule == "zero" && loopUpdates:
		t.Fact("createEdge2 index rule: maxPlus1 (index = largest existing index + 1)")
		return "maxPlus1"
	}
	t.Fail("createEdge2: index computation not recognised (rule=%q loop=%v)", rule, loopUpdates)
	return ""
}

func gen(t *tl.T) {
	simple := table(t, "SimpleReservedKeywords")
	holders := table(t, "ReservedKeywordHolders")
	compositeLit := table(t, "CompositeReservedKeywords")
	style := table(t, "StyleKeywords")
	board := table(t, "BoardKeywords")
	checkInit(t)
	composite := union(compositeLit, holders, board)
	reserved := union(simple, style, composite)
	rule := indexRule(t)
	t.P("namespace D2V.Gen.SemKw\n\n")
	t.P("/-- `SimpleReservedKeywords` -/\ndef simpleReserved : List String := %s\n\n", tl.LeanStringList(simple))
	t.P("/-- `ReservedKeywordHolders` -/\ndef holders : List String := %s\n\n", tl.LeanStringList(holders))
	t.P("/-- `CompositeReservedKeywords` after init (literal ∪ holders ∪ board keywords) -/\ndef compositeReserved : List String := %s\n\n", tl.LeanStringList(composite))
	t.P("/-- `StyleKeywords` -/\ndef styleKeywords : List String := %s\n\n", tl.LeanStringList(style))
	t.P("/-- `BoardKeywords` -/\ndef boardKeywords : List String := %s\n\n", tl.LeanStringList(board))
	t.P("/-- `ReservedKeywords` after init (simple ∪ style ∪ composite) -/\ndef reserved : List String := %s\n\n", tl.LeanStringList(reserved))
	t.P("/-- how `createEdge2` numbers a new connection -/\ninductive IdxRule where\n  | count\n  | maxPlus1\nderiving DecidableEq, Repr\n\n")
	t.P("def idxRule : IdxRule := .%s\n\n", rule)
	t.P("end D2V.Gen.SemKw\n")
}

func main() { tl.Main("SemKw", gen) }
