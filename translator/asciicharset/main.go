// Generator "AsciiCharset" (tie R for C32): re-reads d2renderers/d2ascii/** and emits, as Lean,
//   - the two glyph tables: every method of charset.ASCIISet / charset.UnicodeSet with the string literal it returns
//     (the generator fails when a method does not return a literal);
//   - every other string literal of the non-test sources of d2ascii/** that can reach the canvas: all literals except
//     import paths, struct tags, arguments of log.* / slog.* calls and of fmt.Sprintf / fmt.Errorf format positions,
//     case labels and comparison / strings.* operands (keywords, position names) — i.e. literals that are assigned,
//     returned, indexed or passed to Canvas.Set / DrawLabel — with file and enclosing function;
//   - the byte-indexing sites `rune(<string var>[i])` whose string is a literal with a non-ASCII character (Go indexes
//     bytes, not runes).
package main

import (
	"go/ast"
	"go/token"
	"os"
	"path/filepath"
	"sort"
	"strconv"
	"strings"

	"d2v/translator/tl"
)

func main() { tl.Main("AsciiCharset", gen) }

type lit struct {
	file, fn, val string
}

func glyphs(t *tl.T, rel, recv string) [][2]string {
	var out [][2]string
	for _, d := range t.File(rel).Decls {
		fd, ok := d.(*ast.FuncDecl)
		if !ok || fd.Recv == nil || len(fd.Recv.List) != 1 {
			continue
		}
		r := t.Src(fd.Recv.List[0].Type)
		if strings.TrimPrefix(r, "*") != recv {
			continue
		}
		if fd.Body == nil || len(fd.Body.List) != 1 {
			t.Fail("%s.%s: body is not a single return", recv, fd.Name.Name)
		}
		ret, ok := fd.Body.List[0].(*ast.ReturnStmt)
		if !ok || len(ret.Results) != 1 {
			t.Fail("%s.%s: body is not a single return", recv, fd.Name.Name)
		}
		s, ok := t.StringLit(ret.Results[0])
		if !ok {
			t.Fail("%s.%s does not return a string literal: %s", recv, fd.Name.Name, t.Src(ret.Results[0]))
		}
		out = append(out, [2]string{fd.Name.Name, s})
	}
	if len(out) == 0 {
		t.Fail("no methods of %s found in %s", recv, rel)
	}
	return out
}

func gen(t *tl.T) {
	const root = "d2renderers/d2ascii"
	ascii := glyphs(t, root+"/charset/ascii.go", "ASCIISet")
	uni := glyphs(t, root+"/charset/unicode.go", "UnicodeSet")
	// the Set interface: every method must be implemented by both tables
	var iface []string
	for _, d := range t.File(root + "/charset/charset.go").Decls {
		gd, ok := d.(*ast.GenDecl)
		if !ok || gd.Tok != token.TYPE {
			continue
		}
		for _, s := range gd.Specs {
			ts := s.(*ast.TypeSpec)
			it, ok := ts.Type.(*ast.InterfaceType)
			if !ok || ts.Name.Name != "Set" {
				continue
			}
			for _, m := range it.Methods.List {
				for _, n := range m.Names {
					iface = append(iface, n.Name)
				}
			}
		}
	}
	if len(iface) == 0 {
		t.Fail("charset.Set interface not found")
	}
	t.Fact("charset.Set: %d methods; ASCIISet %d, UnicodeSet %d literals", len(iface), len(ascii), len(uni))

	// every other literal that can reach the canvas
	var files []string
	filepath.Walk(filepath.Join(t.Repo, root), func(p string, info os.FileInfo, err error) error {
		if err == nil && !info.IsDir() && strings.HasSuffix(p, ".go") && !strings.HasSuffix(p, "_test.go") {
			rel, _ := filepath.Rel(t.Repo, p)
			files = append(files, filepath.ToSlash(rel))
		}
		return nil
	})
	sort.Strings(files)
	var lits []lit
	type idxSite struct{ file, fn, varName, val string }
	var idxSites []idxSite
	for _, f := range files {
		if strings.HasSuffix(f, "charset/ascii.go") || strings.HasSuffix(f, "charset/unicode.go") {
			continue
		}
		file := t.File(f)
		skip := map[ast.Node]bool{}
		for _, im := range file.Imports {
			skip[im.Path] = true
		}
		for _, d := range file.Decls {
			fn := "<package>"
			if fd, ok := d.(*ast.FuncDecl); ok {
				fn = fd.Name.Name
			}
			strVars := map[string]string{} // local/package variables initialised with a literal
			ast.Inspect(d, func(n ast.Node) bool {
				switch x := n.(type) {
				case *ast.CallExpr:
					fun := t.Src(x.Fun)
					switch {
					case strings.HasPrefix(fun, "log.") || strings.HasPrefix(fun, "slog."):
						for _, a := range x.Args {
							ast.Inspect(a, func(m ast.Node) bool {
								if bl, ok := m.(*ast.BasicLit); ok {
									skip[bl] = true
								}
								return true
							})
						}
					case fun == "fmt.Sprintf" || fun == "fmt.Errorf" || fun == "os.Getenv" ||
						strings.HasPrefix(fun, "strings.Contains") || strings.HasPrefix(fun, "strings.HasPrefix") ||
						strings.HasPrefix(fun, "strings.HasSuffix") || fun == "strings.Split" || fun == "strings.Join" ||
						fun == "strings.TrimSpace" || fun == "strings.Repeat":
						// format strings / keyword operands / separators: "%d_%d", "OUTSIDE", "\n", "" …
						for _, a := range x.Args {
							if bl, ok := a.(*ast.BasicLit); ok {
								// strings.Repeat's first argument is written to the canvas: keep it
								if fun == "strings.Repeat" && a == x.Args[0] {
									continue
								}
								skip[bl] = true
							}
						}
					}
				case *ast.CaseClause:
					for _, l := range x.List {
						if bl, ok := l.(*ast.BasicLit); ok {
							skip[bl] = true
						}
					}
				case *ast.BinaryExpr:
					if x.Op == token.EQL || x.Op == token.NEQ {
						for _, s := range []ast.Expr{x.X, x.Y} {
							if bl, ok := s.(*ast.BasicLit); ok {
								skip[bl] = true
							}
						}
					}
				case *ast.Field:
					if x.Tag != nil {
						skip[x.Tag] = true
					}
				case *ast.AssignStmt:
					if len(x.Lhs) == 1 && len(x.Rhs) == 1 {
						if id, ok := x.Lhs[0].(*ast.Ident); ok {
							if s, ok := t.StringLit(x.Rhs[0]); ok {
								strVars[id.Name] = s
							}
						}
					}
				}
				return true
			})
			ast.Inspect(d, func(n ast.Node) bool {
				switch x := n.(type) {
				case *ast.BasicLit:
					if x.Kind == token.STRING && !skip[x] {
						if s, ok := t.StringLit(x); ok {
							lits = append(lits, lit{f, fn, s})
						}
					}
					// rune literals count as one-character strings ('│' would be as bad as "│")
					if x.Kind == token.CHAR && !skip[x] {
						if r, _, _, err := strconv.UnquoteChar(x.Value[1:len(x.Value)-1], '\''); err == nil {
							lits = append(lits, lit{f, fn, string(r)})
						}
					}
				case *ast.CallExpr:
					// rune(v[i]) where v holds a literal
					if t.Src(x.Fun) == "rune" && len(x.Args) == 1 {
						if ix, ok := x.Args[0].(*ast.IndexExpr); ok {
							if id, ok := ix.X.(*ast.Ident); ok {
								if v, ok := strVars[id.Name]; ok {
									idxSites = append(idxSites, idxSite{f, fn, id.Name, v})
								}
							}
						}
					}
				}
				return true
			})
		}
	}
	t.Fact("d2ascii: %d files, %d string literals that can reach the canvas, %d byte-index sites", len(files), len(lits), len(idxSites))

	// DrawLabel: does the column advance by the byte offset of `range line` or by one per rune?
	dl := t.Func(root+"/asciicanvas/asciicanvas.go", "Canvas", "DrawLabel")
	byteOffsets, perRune := false, false
	ast.Inspect(dl.Body, func(n ast.Node) bool {
		rs, ok := n.(*ast.RangeStmt)
		if !ok || t.Src(rs.X) != "line" {
			return true
		}
		body := t.Src(rs.Body)
		if rs.Key != nil && t.Src(rs.Key) != "_" && strings.Contains(body, "c.Set(x+"+t.Src(rs.Key)+",") {
			byteOffsets = true
		}
		if (rs.Key == nil || t.Src(rs.Key) == "_") && strings.Contains(body, "++") {
			perRune = true
		}
		return false
	})
	if byteOffsets == perRune {
		t.Fail("DrawLabel: cannot tell how the column advances (byte offsets: %v, per rune: %v)", byteOffsets, perRune)
	}
	t.Fact("DrawLabel advances by byte offsets: %v", byteOffsets)

	t.P("namespace D2V.Gen.AsciiCharset\n\n")
	t.P("/-- asciicanvas.DrawLabel uses the byte offset of `for i, ch := range line` as the column (false: one column per rune) -/\n")
	t.P("def drawLabelByteOffsets : Bool := %v\n\n", byteOffsets)
	t.P("/-- methods of the charset.Set interface -/\n")
	t.P("def setMethods : List String := %s\n\n", tl.LeanStringList(iface))
	pr := func(name string, g [][2]string) {
		var xs []string
		for _, p := range g {
			xs = append(xs, "("+tl.LeanString(p[0])+", "+tl.LeanString(p[1])+")")
		}
		t.P("def %s : List (String × String) := [%s]\n\n", name, strings.Join(xs, ", "))
	}
	t.P("/-- charset.ASCIISet: (method, glyph) -/\n")
	pr("asciiGlyphs", ascii)
	t.P("/-- charset.UnicodeSet: (method, glyph) -/\n")
	pr("unicodeGlyphs", uni)
	var xs []string
	for _, l := range lits {
		xs = append(xs, "("+tl.LeanString(l.file)+", "+tl.LeanString(l.fn)+", "+tl.LeanString(l.val)+")")
	}
	t.P("/-- every other string literal of d2ascii/** that can reach the canvas: (file, function, literal) -/\n")
	t.P("def canvasLiterals : List (String × String × String) := [\n  %s]\n\n", strings.Join(xs, ",\n  "))
	xs = nil
	seen := map[string]bool{}
	for _, s := range idxSites {
		k := s.file + "|" + s.fn + "|" + s.varName
		if seen[k] {
			continue
		}
		seen[k] = true
		xs = append(xs, "("+tl.LeanString(s.file)+", "+tl.LeanString(s.fn)+", "+tl.LeanString(s.varName)+", "+tl.LeanString(s.val)+")")
	}
	t.P("/-- sites `rune(v[i])` where `v` holds a string literal (Go indexes bytes): (file, function, variable, literal) -/\n")
	t.P("def byteIndexSites : List (String × String × String × String) := [%s]\n\n", strings.Join(xs, ", "))
	t.P("end D2V.Gen.AsciiCharset\n")
}
