// svgsites — tie R for C30: lists every fmt.Sprintf / Fprintf / Fprint / Sprint / Fprintln site of the SVG emitters that
// interpolates an operand through a string-capable verb (%s, %v, %q, or a Print-style call), with file, enclosing
// function, format string and operand expression (no line numbers), into lean/D2V/Gen/SvgSites.lean.
// Props/C30Sites.lean holds the committed classification of each site; a site that is not in that table (a new
// interpolation, or an existing one whose escaping call was removed) leaves `all_sites_classified` undischarged.
package main

import (
	"d2v/translator/tl"
	"fmt"
	"go/ast"
	"go/token"
	"hash/fnv"
	"os"
	"path/filepath"
	"sort"
	"strings"
)

func main() { tl.Main("SvgSites", gen) }

var dirs = []string{"d2renderers/d2svg", "d2renderers/d2svg/appendix", "d2renderers/d2sketch", "d2themes", "lib/svg", "lib/color"}
var only = map[string][]string{"d2themes": {"element.go"}, "lib/color": {"gradient.go"}}

var elementFields = map[string]bool{"Content": true, "Style": true, "Href": true, "ClassName": true, "Fill": true, "Stroke": true,
	"BackgroundColor": true, "Color": true, "Attributes": true, "ClipPath": true, "Mask": true, "D": true, "Points": true,
	"Transform": true, "StrokeDashArray": true, "FillPattern": true, "Xmlns": true}

type site struct{ file, fn, format, verb, operand string }

func (s site) key() string { return s.file + "|" + s.fn + "|" + s.format + "|" + s.verb + "|" + s.operand }

// verbs splits a format string into its verbs with explicit argument indexes resolved (%[1]s).
func verbs(f string) []struct {
	verb byte
	arg  int
} {
	var out []struct {
		verb byte
		arg  int
	}
	next := 0
	for i := 0; i < len(f); i++ {
		if f[i] != '%' {
			continue
		}
		i++
		if i < len(f) && f[i] == '%' {
			continue
		}
		arg := -1
		for i < len(f) {
			c := f[i]
			if c == '[' {
				j := strings.IndexByte(f[i:], ']')
				if j < 0 {
					break
				}
				fmt.Sscanf(f[i+1:i+j], "%d", &arg)
				arg--
				i += j + 1
				continue
			}
			if strings.IndexByte("+-# 0123456789.*", c) >= 0 {
				if c == '*' {
					next++
				}
				i++
				continue
			}
			break
		}
		if i >= len(f) {
			break
		}
		if arg < 0 {
			arg = next
		}
		next = arg + 1
		out = append(out, struct {
			verb byte
			arg  int
		}{f[i], arg})
	}
	return out
}

func gen(t *tl.T) {
	var sites []site
	nfiles := 0
	for _, d := range dirs {
		ents, err := os.ReadDir(filepath.Join(t.Repo, d))
		if err != nil {
			t.Fail("cannot read %s: %v", d, err)
		}
		for _, e := range ents {
			n := e.Name()
			if e.IsDir() || !strings.HasSuffix(n, ".go") || strings.HasSuffix(n, "_test.go") || strings.HasPrefix(n, "verif_") {
				continue
			}
			if lst, ok := only[d]; ok {
				found := false
				for _, x := range lst {
					found = found || x == n
				}
				if !found {
					continue
				}
			}
			rel := filepath.ToSlash(filepath.Join(d, n))
			f := t.File(rel)
			nfiles++
			consts := t.StringConsts(rel)
			for _, decl := range f.Decls {
				fd, ok := decl.(*ast.FuncDecl)
				if !ok || fd.Body == nil {
					continue
				}
				fn := fd.Name.Name
				if fd.Recv != nil && len(fd.Recv.List) == 1 {
					fn = strings.TrimPrefix(t.Src(fd.Recv.List[0].Type), "*") + "." + fn
				}
				ast.Inspect(fd.Body, func(nd ast.Node) bool {
					if as, ok := nd.(*ast.AssignStmt); ok && len(as.Lhs) == len(as.Rhs) {
						// string fields of d2themes.ThemableElement flow into Render's %s verbs
						for i, l := range as.Lhs {
							se, ok := l.(*ast.SelectorExpr)
							if !ok || !elementFields[se.Sel.Name] {
								continue
							}
							if _, isLit := t.StringLit(as.Rhs[i]); isLit {
								continue
							}
							if bl, ok := as.Rhs[i].(*ast.BasicLit); ok && bl.Kind != token.STRING {
								continue
							}
							op := "="
							if as.Tok == token.ADD_ASSIGN {
								op = "+="
							}
							sites = append(sites, site{rel, fn, "field " + se.Sel.Name + " " + op, "assign", t.Src(as.Rhs[i])})
						}
						return true
					}
					call, ok := nd.(*ast.CallExpr)
					if !ok {
						return true
					}
					sel, ok := call.Fun.(*ast.SelectorExpr)
					if !ok {
						return true
					}
					pkg, ok := sel.X.(*ast.Ident)
					if !ok || pkg.Name != "fmt" {
						return true
					}
					var fmtIdx int
					switch sel.Sel.Name {
					case "Sprintf", "Errorf":
						fmtIdx = 0
					case "Fprintf":
						fmtIdx = 1
					case "Sprint", "Sprintln":
						fmtIdx = -1
					case "Fprint", "Fprintln":
						fmtIdx = -2
					default:
						return true
					}
					if sel.Sel.Name == "Errorf" {
						return true // error texts never reach the SVG
					}
					if fmtIdx < 0 {
						start := 0
						if fmtIdx == -2 {
							start = 1
						}
						for _, a := range call.Args[start:] {
							if _, isLit := t.StringLit(a); isLit {
								continue
							}
							sites = append(sites, site{rel, fn, "", "print", t.Src(a)})
						}
						return true
					}
					if len(call.Args) <= fmtIdx {
						return true
					}
					format, isLit := t.StringLit(call.Args[fmtIdx])
					fsrc := format
					if !isLit {
						// a named constant / variable holding the format
						name := t.Src(call.Args[fmtIdx])
						if v, ok := consts[name]; ok {
							format, fsrc = v, "const "+name
						} else if v, ok := lookupConst(t, name); ok {
							format, fsrc = v, "const "+name
						} else {
							// unknown format: every operand may be interpolated as a string
							for _, a := range call.Args[fmtIdx+1:] {
								sites = append(sites, site{rel, fn, "dynamic " + name, "v", t.Src(a)})
							}
							return true
						}
					}
					if len(fsrc) > 160 {
						fsrc = fsrc[:160] + "…"
					}
					ops := call.Args[fmtIdx+1:]
					for _, v := range verbs(format) {
						if v.verb != 's' && v.verb != 'v' && v.verb != 'q' {
							continue
						}
						if v.arg >= len(ops) {
							continue
						}
						sites = append(sites, site{rel, fn, fsrc, string(v.verb), t.Src(ops[v.arg])})
					}
					return true
				})
			}
		}
	}
	if len(sites) < 50 {
		t.Fail("only %d interpolation sites found in %d files: the emitters moved", len(sites), nfiles)
	}
	// deterministic order, duplicates (same function, same format, same operand) collapsed
	seen := map[string]bool{}
	var uniq []site
	for _, s := range sites {
		if !seen[s.key()] {
			seen[s.key()] = true
			uniq = append(uniq, s)
		}
	}
	sort.Slice(uniq, func(i, j int) bool { return uniq[i].key() < uniq[j].key() })
	t.P("/-! Interpolation sites of the SVG emitters (tie R for C30). One entry per (call site, string-capable operand). -/\n")
	t.P("namespace D2V.Gen.SvgSites\n\n")
	t.P("structure Site where\n  key : Nat      -- FNV-1a 64 of file|func|format|verb|operand\n  file : String\n  fn : String\n  fmt : String\n  verb : String\n  operand : String\n  deriving Repr\n\n")
	t.P("def sites : List Site := [\n")
	for i, s := range uniq {
		h := fnv.New64a()
		h.Write([]byte(s.key()))
		sep := ","
		if i == len(uniq)-1 {
			sep = ""
		}
		t.P("  ⟨%d, %s, %s, %s, %s, %s⟩%s\n", h.Sum64(), tl.LeanString(s.file), tl.LeanString(s.fn), tl.LeanString(s.format), tl.LeanString(s.verb), tl.LeanString(s.operand), sep)
	}
	t.P("]\n\n")
	var keys []uint64
	for _, s := range uniq {
		h := fnv.New64a()
		h.Write([]byte(s.key()))
		keys = append(keys, h.Sum64())
	}
	sort.Slice(keys, func(i, j int) bool { return keys[i] < keys[j] })
	t.P("/-- the keys of `sites`, strictly ascending -/\ndef sortedKeys : List Nat := [")
	for i, k := range keys {
		if i > 0 {
			if keys[i-1] == k {
				continue
			}
			t.P(", ")
		}
		t.P("%d", k)
	}
	t.P("]\n\nend D2V.Gen.SvgSites\n")
	t.Fact("svgsites: %d interpolation sites in %d files", len(uniq), nfiles)
	_ = token.NoPos
}

// lookupConst resolves d2svg's package-level format constants that live in other files of the same package
func lookupConst(t *tl.T, name string) (string, bool) {
	name = strings.TrimPrefix(name, "d2svg.")
	for _, rel := range []string{"d2renderers/d2svg/d2svg.go"} {
		if v, ok := t.StringConsts(rel)[name]; ok {
			return v, true
		}
	}
	return "", false
}
