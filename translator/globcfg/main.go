// Tie R for C12: structural facts of d2ir/pattern.go:matchPattern and the reserved-keyword set it consults.
//
//	lowersOnce      the function re-assigns `s = strings.ToLower(s)` before its loop (then every index/length refers
//	                to the lower-cased string, and the keyword test sees the lower-cased name); otherwise it slices the
//	                original string with lengths taken from lower-cased ones
//	anchoredEnd     the function tests the end of the name (a `strings.HasSuffix` call or a final `return s == ""`)
//	reservedKeywords  the union d2ast/keywords.go's init() builds
//
// Output: lean/D2V/Gen/GlobCfg.lean.
package main

import (
	"go/ast"
	"go/token"

	"d2v/translator/tl"
)

const kwFile = "d2ast/keywords.go"

func isCall(e ast.Expr, pkg, fn string) bool {
	c, ok := e.(*ast.CallExpr)
	if !ok {
		return false
	}
	se, ok := c.Fun.(*ast.SelectorExpr)
	if !ok || se.Sel.Name != fn {
		return false
	}
	id, ok := se.X.(*ast.Ident)
	return ok && id.Name == pkg
}

func gen(t *tl.T) {
	fd := t.Func("d2ir/pattern.go", "", "matchPattern")
	if fd.Type.Params == nil || len(fd.Type.Params.List) != 2 {
		t.Fail("matchPattern no longer takes (s string, pattern []string)")
	}
	sName := fd.Type.Params.List[0].Names[0].Name
	var loop *ast.ForStmt
	lowersOnce := false
	for _, st := range fd.Body.List {
		if f, ok := st.(*ast.ForStmt); ok {
			loop = f
			break
		}
		// `s = strings.ToLower(s)` before the loop
		if as, ok := st.(*ast.AssignStmt); ok && as.Tok == token.ASSIGN && len(as.Lhs) == 1 && len(as.Rhs) == 1 {
			if id, ok := as.Lhs[0].(*ast.Ident); ok && id.Name == sName && isCall(as.Rhs[0], "strings", "ToLower") {
				lowersOnce = true
			}
		}
	}
	if loop == nil {
		t.Fail("matchPattern has no for loop over the pattern any more")
	}
	usesIndex, usesPrefix, hasSuffix := false, false, false
	ast.Inspect(fd.Body, func(n ast.Node) bool {
		if e, ok := n.(ast.Expr); ok {
			if isCall(e, "strings", "Index") {
				usesIndex = true
			}
			if isCall(e, "strings", "HasPrefix") {
				usesPrefix = true
			}
			if isCall(e, "strings", "HasSuffix") {
				hasSuffix = true
			}
		}
		return true
	})
	if !usesIndex || !usesPrefix {
		t.Fail("matchPattern no longer uses strings.Index / strings.HasPrefix: the model does not describe it")
	}
	// final `return s == ""`
	anchored := hasSuffix
	if last, ok := fd.Body.List[len(fd.Body.List)-1].(*ast.ReturnStmt); ok && len(last.Results) == 1 {
		if be, ok := last.Results[0].(*ast.BinaryExpr); ok && be.Op == token.EQL {
			anchored = true
		}
	}
	t.Fact("matchPattern: lowersOnce=%v anchoredEnd=%v", lowersOnce, anchored)

	union := map[string]bool{}
	for _, name := range []string{"SimpleReservedKeywords", "StyleKeywords", "ReservedKeywordHolders", "BoardKeywords", "CompositeReservedKeywords"} {
		ks := t.StringElems(t.Var(kwFile, name), nil)
		for _, k := range ks {
			union[k] = true
		}
		t.Fact("%s: %d keywords", name, len(ks))
	}
	kws := tl.SortedKeys(union)

	t.P("namespace D2V.Gen.GlobCfg\n\n")
	t.P("/-- `matchPattern` lower-cases the name once before its loop -/\ndef lowersOnce : Bool := %v\n\n", lowersOnce)
	t.P("/-- `matchPattern` tests the end of the name -/\ndef anchoredEnd : Bool := %v\n\n", anchored)
	t.P("/-- `d2ast.ReservedKeywords` (union built by keywords.go's init) -/\ndef reservedKeywords : List String :=\n  %s\n\n", tl.LeanStringList(kws))
	t.P("end D2V.Gen.GlobCfg\n")
}

func main() { tl.Main("GlobCfg", gen) }
