// Tie R for C27/C21: the numeric constants of lib/shape (wedge widths, arc depth, page corner, package top, document
// path ratios, callout tip, person shoulder factor, AR limits, default padding) as exact decimal rationals.
package main

import (
	"go/ast"
	"go/token"
	"math/big"
	"strings"

	"d2v/translator/tl"
)

// decimal literal → exact rational (the float64 the compiler picks differs by < 1 ulp; the check compares with tolerance)
func ratOf(t *tl.T, e ast.Expr) *big.Rat {
	switch x := e.(type) {
	case *ast.BasicLit:
		if x.Kind != token.INT && x.Kind != token.FLOAT {
			t.Fail("not a numeric literal: %s", t.Src(e))
		}
		v := strings.TrimSuffix(x.Value, ".")
		r, ok := new(big.Rat).SetString(v)
		if !ok {
			t.Fail("cannot read %s", x.Value)
		}
		return r
	case *ast.ParenExpr:
		return ratOf(t, x.X)
	case *ast.BinaryExpr:
		a, b := ratOf(t, x.X), ratOf(t, x.Y)
		switch x.Op {
		case token.QUO:
			if b.Sign() == 0 {
				t.Fail("division by zero in %s", t.Src(e))
			}
			return new(big.Rat).Quo(a, b)
		case token.MUL:
			return new(big.Rat).Mul(a, b)
		case token.ADD:
			return new(big.Rat).Add(a, b)
		case token.SUB:
			return new(big.Rat).Sub(a, b)
		}
	}
	t.Fail("unsupported constant expression: %s", t.Src(e))
	return nil
}

func gen(t *tl.T) {
	t.P("namespace D2V.Gen.Shape\n\n")
	for _, c := range []struct{ file, name, lean string }{
		{"shape.go", "defaultPadding", "defaultPadding"},
		{"shape_cylinder.go", "defaultArcDepth", "arcDepth"},
		{"shape_package.go", "packageTopMaxHeight", "packageTopMaxHeight"},
		{"shape_package.go", "packageVerticalScalar", "packageVerticalScalar"},
		{"shape_page.go", "pageCornerWidth", "pageCornerWidth"},
		{"shape_page.go", "pageCornerHeight", "pageCornerHeight"},
		{"shape_step.go", "STEP_WEDGE_WIDTH", "stepWedgeWidth"},
		{"shape_parallelogram.go", "parallelWedgeWidth", "parallelWedgeWidth"},
		{"shape_document.go", "docPathHeight", "docPathHeight"},
		{"shape_document.go", "docPathInnerBottom", "docPathInnerBottom"},
		{"shape_stored_data.go", "storedDataWedgeWidth", "storedDataWedgeWidth"},
		{"shape_callout.go", "defaultTipHeight", "tipHeight"},
		{"shape_person.go", "personShoulderWidthFactor", "personShoulderWidthFactor"},
		{"shape_person.go", "PERSON_AR_LIMIT", "personARLimit"},
		{"shape_oval.go", "OVAL_AR_LIMIT", "ovalARLimit"},
		{"shape_c4_person.go", "C4_PERSON_AR_LIMIT", "c4PersonARLimit"},
		{"shape_c4_person.go", "HEAD_RADIUS_FACTOR", "c4HeadRadiusFactor"},
		{"shape_c4_person.go", "BODY_TOP_FACTOR", "c4BodyTopFactor"},
		{"shape_cloud.go", "CLOUD_WIDE_INNER_X", "cloudWideInnerX"},
		{"shape_cloud.go", "CLOUD_WIDE_INNER_Y", "cloudWideInnerY"},
		{"shape_cloud.go", "CLOUD_WIDE_INNER_WIDTH", "cloudWideInnerWidth"},
		{"shape_cloud.go", "CLOUD_WIDE_INNER_HEIGHT", "cloudWideInnerHeight"},
		{"shape_cloud.go", "CLOUD_TALL_INNER_X", "cloudTallInnerX"},
		{"shape_cloud.go", "CLOUD_TALL_INNER_Y", "cloudTallInnerY"},
		{"shape_cloud.go", "CLOUD_TALL_INNER_WIDTH", "cloudTallInnerWidth"},
		{"shape_cloud.go", "CLOUD_TALL_INNER_HEIGHT", "cloudTallInnerHeight"},
		{"shape_cloud.go", "CLOUD_SQUARE_INNER_X", "cloudSquareInnerX"},
		{"shape_cloud.go", "CLOUD_SQUARE_INNER_Y", "cloudSquareInnerY"},
		{"shape_cloud.go", "CLOUD_SQUARE_INNER_WIDTH", "cloudSquareInnerWidth"},
		{"shape_cloud.go", "CLOUD_SQUARE_INNER_HEIGHT", "cloudSquareInnerHeight"},
	} {
		r := ratOf(t, t.Var("lib/shape/"+c.file, c.name))
		t.Fact("lib/shape/%s:%s = %s", c.file, c.name, r.RatString())
		t.P("/-- `%s` of lib/shape/%s -/\ndef %s : Rat := (%s : Rat) / %s\n\n", c.name, c.file, c.lean, r.Num().String(), r.Denom().String())
	}
	t.P("end D2V.Gen.Shape\n")
}

func main() { tl.Main("Shape", gen) }
