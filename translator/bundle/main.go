// Generator "Bundle" (tie R for C46): the literals and structural facts of lib/imgbundler/imgbundler.go the Lean
// model is built from — the image regexp's literal prefix, the replacement's format string, the skipped prefix, the
// remote-scheme prefix, the semaphore capacity, the count passed to bytes.Replace, the MIME fix-ups, and whether the
// MIME type is escaped before it is embedded.
package main

import (
	"fmt"
	"go/ast"
	"go/token"
	"strconv"
	"strings"

	"d2v/translator/tl"
)

const src = "lib/imgbundler/imgbundler.go"

func main() { tl.Main("Bundle", gen) }

func bytesLit(s string) string {
	parts := make([]string, len(s))
	for i := 0; i < len(s); i++ {
		parts[i] = strconv.Itoa(int(s[i]))
	}
	return "[" + strings.Join(parts, ", ") + "]"
}

// calls returns every call expression in n whose function renders as name.
func calls(t *tl.T, n ast.Node, name string) []*ast.CallExpr {
	var out []*ast.CallExpr
	ast.Inspect(n, func(x ast.Node) bool {
		if c, ok := x.(*ast.CallExpr); ok && t.Src(c.Fun) == name {
			out = append(out, c)
		}
		return true
	})
	return out
}

func intLit(t *tl.T, e ast.Expr) (int, bool) {
	neg := false
	if u, ok := e.(*ast.UnaryExpr); ok && u.Op == token.SUB {
		neg = true
		e = u.X
	}
	bl, ok := e.(*ast.BasicLit)
	if !ok || bl.Kind != token.INT {
		return 0, false
	}
	n, err := strconv.Atoi(bl.Value)
	if err != nil {
		return 0, false
	}
	if neg {
		n = -n
	}
	return n, true
}

func gen(t *tl.T) {
	// 1. the regular expression
	re := t.Var(src, "imageRegex")
	rc, ok := re.(*ast.CallExpr)
	if !ok || t.Src(rc.Fun) != "regexp.MustCompile" || len(rc.Args) != 1 {
		t.Fail("imageRegex is not regexp.MustCompile(<literal>)")
	}
	reSrc, ok := t.StringLit(rc.Args[0])
	if !ok {
		t.Fail("imageRegex pattern is not a string literal")
	}
	const capture = `([^"]+)"`
	if !strings.HasSuffix(reSrc, capture) {
		t.Fail("imageRegex %q does not end with the capture %s", reSrc, capture)
	}
	prefix := strings.TrimSuffix(reSrc, capture)
	if strings.ContainsAny(prefix, `\.+*?()|[]{}^$`) {
		t.Fail("imageRegex prefix %q is not a plain literal", prefix)
	}

	// 2. runWorkers: semaphore capacity and the replace count
	rw := t.Func(src, "", "runWorkers")
	sema := -1
	ast.Inspect(rw.Body, func(n ast.Node) bool {
		as, ok := n.(*ast.AssignStmt)
		if !ok || len(as.Lhs) != 1 || len(as.Rhs) != 1 || t.Src(as.Lhs[0]) != "sema" {
			return true
		}
		if c, ok := as.Rhs[0].(*ast.CallExpr); ok && t.Src(c.Fun) == "make" && len(c.Args) == 2 {
			if n, ok := intLit(t, c.Args[1]); ok {
				sema = n
			}
		}
		return true
	})
	if sema < 0 {
		t.Fail("sema := make(chan struct{}, N) not found in runWorkers")
	}
	reps := calls(t, rw.Body, "bytes.Replace")
	if len(reps) != 1 || len(reps[0].Args) != 4 {
		t.Fail("expected exactly one bytes.Replace(svg, from, to, n) in runWorkers")
	}
	replN, ok := intLit(t, reps[0].Args[3])
	if !ok {
		t.Fail("bytes.Replace count is not an integer literal: %s", t.Src(reps[0].Args[3]))
	}
	if got := t.Src(reps[0].Args[1]) + "," + t.Src(reps[0].Args[2]); got != "repl.from,repl.to" {
		t.Fail("bytes.Replace arguments changed: %s", got)
	}
	// what the workers report and hand over
	reported, handed := "", ""
	ast.Inspect(rw.Body, func(n ast.Node) bool {
		switch x := n.(type) {
		case *ast.AssignStmt:
			if len(x.Lhs) == 1 && t.Src(x.Lhs[0]) == "errhrefs" && len(x.Rhs) == 1 {
				if c, ok := x.Rhs[0].(*ast.CallExpr); ok && t.Src(c.Fun) == "append" && len(c.Args) == 2 {
					reported = t.Src(c.Args[1])
				}
			}
		case *ast.CompositeLit:
			if t.Src(x.Type) == "repl" {
				handed = t.Src(x)
			}
		}
		return true
	})
	if reported == "" || handed == "" {
		t.Fail("errhrefs append / repl{...} literal not found in runWorkers")
	}

	// 3. filterImageElements
	fe := t.Func(src, "", "filterImageElements")
	skip, scheme := "", ""
	for _, c := range calls(t, fe.Body, "strings.HasPrefix") {
		if len(c.Args) != 2 {
			continue
		}
		lit, ok := t.StringLit(c.Args[1])
		if !ok {
			continue
		}
		switch t.Src(c.Args[0]) {
		case "href":
			skip = lit
		case "u.Scheme":
			scheme = lit
		}
	}
	if skip == "" || scheme == "" {
		t.Fail("HasPrefix(href, …) / HasPrefix(u.Scheme, …) not found in filterImageElements")
	}
	sameKind := false
	ast.Inspect(fe.Body, func(n ast.Node) bool {
		if b, ok := n.(*ast.BinaryExpr); ok && b.Op == token.EQL && t.Src(b) == "isRemoteImg == isRemote" {
			sameKind = true
		}
		return true
	})
	if !sameKind {
		t.Fail("the test `isRemoteImg == isRemote` is gone from filterImageElements")
	}

	// 4. worker: format string, MIME fix-ups
	wk := t.Func(src, "", "worker")
	var format string
	var mimeArg string
	for _, c := range calls(t, wk.Body, "fmt.Sprintf") {
		if len(c.Args) == 3 {
			if f, ok := t.StringLit(c.Args[0]); ok && strings.Count(f, "%s") == 2 && strings.Contains(f, "base64") {
				format = f
				mimeArg = t.Src(c.Args[1])
			}
		}
	}
	if format == "" {
		t.Fail("the Sprintf producing the data URI was not found in worker")
	}
	pieces := strings.Split(format, "%s")
	escaped := false
	switch mimeArg {
	case "mimeType":
	case "html.EscapeString(mimeType)":
		escaped = true
	default:
		// an assignment `mimeType = html.EscapeString(mimeType)` before the Sprintf counts too
		t.Fail("unexpected MIME argument of the data URI Sprintf: %s", mimeArg)
	}
	ast.Inspect(wk.Body, func(n ast.Node) bool {
		if as, ok := n.(*ast.AssignStmt); ok && len(as.Lhs) == 1 && len(as.Rhs) == 1 &&
			t.Src(as.Lhs[0]) == "mimeType" && t.Src(as.Rhs[0]) == "html.EscapeString(mimeType)" {
			escaped = true
		}
		return true
	})
	var xmlFrom, xmlTo string
	xmlN := 0
	for _, c := range calls(t, wk.Body, "strings.Replace") {
		if len(c.Args) == 4 && t.Src(c.Args[0]) == "mimeType" {
			a, ok1 := t.StringLit(c.Args[1])
			b, ok2 := t.StringLit(c.Args[2])
			n, ok3 := intLit(t, c.Args[3])
			if ok1 && ok2 && ok3 {
				xmlFrom, xmlTo, xmlN = a, b, n
			}
		}
	}
	if xmlFrom == "" {
		t.Fail("strings.Replace(mimeType, …) not found in worker")
	}
	octet, probe, octetTo := "", "", ""
	ast.Inspect(wk.Body, func(n ast.Node) bool {
		is, ok := n.(*ast.IfStmt)
		if !ok {
			return true
		}
		b, ok := is.Cond.(*ast.BinaryExpr)
		if !ok || b.Op != token.LAND {
			return true
		}
		l, ok := b.X.(*ast.BinaryExpr)
		if !ok || l.Op != token.EQL || t.Src(l.X) != "mimeType" {
			return true
		}
		o, ok := t.StringLit(l.Y)
		if !ok {
			return true
		}
		cs := calls(t, b.Y, "bytes.Contains")
		if len(cs) != 1 || len(cs[0].Args) != 2 {
			return true
		}
		conv, ok := cs[0].Args[1].(*ast.CallExpr)
		if !ok || len(conv.Args) != 1 {
			return true
		}
		p, ok := t.StringLit(conv.Args[0])
		if !ok {
			return true
		}
		for _, st := range is.Body.List {
			if as, ok := st.(*ast.AssignStmt); ok && len(as.Lhs) == 1 && t.Src(as.Lhs[0]) == "mimeType" {
				if v, ok := t.StringLit(as.Rhs[0]); ok {
					octet, probe, octetTo = o, p, v
				}
			}
		}
		return true
	})
	if octet == "" {
		t.Fail("the octet-stream/<svg fix-up was not found in worker")
	}
	enc := ""
	ast.Inspect(wk.Body, func(n ast.Node) bool {
		if s, ok := n.(*ast.SelectorExpr); ok && strings.HasPrefix(t.Src(s), "base64.") && strings.HasSuffix(t.Src(s), "Encoding") {
			enc = t.Src(s)
		}
		return true
	})
	if enc == "" {
		t.Fail("no base64.*Encoding in worker")
	}

	t.P("namespace D2V.Gen.Bundle\n")
	t.P("/-- source of `imageRegex` -/\ndef regexSrc : String := %s\n", tl.LeanString(reSrc))
	t.P("/-- its literal prefix (the rest is the capture `([^\"]+)\"`) -/\ndef regexPrefix : List UInt8 := %s\n", bytesLit(prefix))
	t.P("/-- capacity of the `sema` channel in runWorkers -/\ndef semaCap : Nat := %d\n", sema)
	t.P("/-- the count given to bytes.Replace in the collector (negative = all) -/\ndef replaceN : Int := %d\n", replN)
	t.P("/-- what a failing worker appends to errhrefs, what a successful one hands over -/\ndef reported : String := %s\ndef handed : String := %s\n", tl.LeanString(reported), tl.LeanString(handed))
	t.P("/-- hrefs with this prefix are skipped by filterImageElements -/\ndef skipPrefix : List UInt8 := %s\n", bytesLit(skip))
	t.P("/-- a URL scheme with this prefix makes an image remote -/\ndef remoteSchemePrefix : List UInt8 := %s\n", bytesLit(scheme))
	t.P("/-- the data-URI format string of `worker`, cut at its two %%s -/\ndef fmtHead : List UInt8 := %s\ndef fmtMid : List UInt8 := %s\ndef fmtTail : List UInt8 := %s\n",
		bytesLit(pieces[0]), bytesLit(pieces[1]), bytesLit(pieces[2]))
	t.P("/-- the MIME type goes through html.EscapeString before it is embedded -/\ndef mimeEscaped : Bool := %v\n", escaped)
	t.P("/-- strings.Replace(mimeType, from, to, n) -/\ndef xmlFrom : List UInt8 := %s\ndef xmlTo : List UInt8 := %s\ndef xmlN : Int := %d\n", bytesLit(xmlFrom), bytesLit(xmlTo), xmlN)
	t.P("/-- `if mimeType == octet && bytes.Contains(buf, probe) { mimeType = octetTo }` -/\ndef octet : List UInt8 := %s\ndef probe : List UInt8 := %s\ndef octetTo : List UInt8 := %s\n", bytesLit(octet), bytesLit(probe), bytesLit(octetTo))
	t.P("def b64Encoding : String := %s\n", tl.LeanString(enc))
	t.P("end D2V.Gen.Bundle\n")
	t.Fact("imageRegex %q prefix %q", reSrc, prefix)
	t.Fact("sema capacity %d, bytes.Replace count %d, reports %s, hands over %s", sema, replN, reported, handed)
	t.Fact("skip prefix %q, remote scheme prefix %q", skip, scheme)
	t.Fact("data URI format %q, mime escaped: %v, %s", format, escaped, enc)
	t.Fact("mime fix-ups: %q->%q (n=%d); %q with %q -> %q", xmlFrom, xmlTo, xmlN, octet, probe, octetTo)
	_ = fmt.Sprint
}
