// Generator "Themes" (tie R for C31 and C28): re-reads the theme layer of d2 and emits, as Lean,
//   - the theme catalog (d2themes/d2themescatalog/*.go): every `var X = d2themes.Theme{…}` with ID, name, the 18
//     palette entries (Neutrals resolved through the `d2themes.Neutral` variables) and SpecialRules; LightCatalog /
//     DarkCatalog membership and order; the order in which `Find` searches them;
//   - `Theme.ApplyOverrides`: the list of (override field, palette field) assignments in source order;
//   - `ResolveThemeColor`: the (case label, palette field) table, the non-theme guard and the default;
//   - `lib/color.themeColorRegex` expanded into the list of strings it matches;
//   - `Theme.IsDark` bounds;
//   - `d2svg.singleThemeRulesets`: the properties looped over, the (class code, palette field) pairs of the rule
//     format, the appendix / markdown-variable / sketch-overlay arguments, and that the theme is `Find(themeID)` with
//     `ApplyOverrides(overrides)`; `ThemeCSS`'s light/dark call arguments;
//   - `ThemableElement.Render`: (property class prefix, inline attribute, element field) triples of the colour branch;
//   - `d2svg.Render`: the inline theme is `Find(themeID)` + `ApplyOverrides(opts.ThemeOverrides)` iff `darkThemeID == nil`.
//
// Everything is located by structure (function name, callee, field name), never by line number.
package main

import (
	"fmt"
	"go/ast"
	"go/token"
	"os"
	"path/filepath"
	"regexp"
	"sort"
	"strconv"
	"strings"

	"d2v/translator/tl"
)

func main() { tl.Main("Themes", gen) }

var codes = []string{"N1", "N2", "N3", "N4", "N5", "N6", "N7", "B1", "B2", "B3", "B4", "B5", "B6", "AA2", "AA4", "AA5", "AB4", "AB5"}

func isCode(s string) bool {
	for _, c := range codes {
		if c == s {
			return true
		}
	}
	return false
}

// paletteField turns `theme.Colors.Neutrals.N1` / `t.Colors.B2` (any receiver) into the code name.
func paletteField(t *tl.T, e ast.Expr) string {
	src := t.Src(e)
	parts := strings.Split(src, ".")
	if len(parts) < 3 {
		t.Fail("not a palette field: %s", src)
	}
	last := parts[len(parts)-1]
	if !isCode(last) {
		t.Fail("palette field %s is not one of the 18 theme colour codes (model D2V.Themes.Code must be extended)", src)
	}
	// N* must go through Neutrals, the others must not
	viaNeutrals := parts[len(parts)-2] == "Neutrals"
	if viaNeutrals != strings.HasPrefix(last, "N") {
		t.Fail("unexpected palette path %s", src)
	}
	if viaNeutrals {
		if parts[len(parts)-3] != "Colors" {
			t.Fail("unexpected palette path %s", src)
		}
	} else if parts[len(parts)-2] != "Colors" {
		t.Fail("unexpected palette path %s", src)
	}
	return last
}

type theme struct {
	varName string
	id      int64
	name    string
	colors  map[string]string
	rules   map[string]bool
}

func compositeFields(t *tl.T, e ast.Expr) map[string]ast.Expr {
	cl, ok := e.(*ast.CompositeLit)
	if !ok {
		t.Fail("expected composite literal, got %s", t.Src(e))
	}
	m := map[string]ast.Expr{}
	for _, el := range cl.Elts {
		kv, ok := el.(*ast.KeyValueExpr)
		if !ok {
			t.Fail("positional element in %s", t.Src(e))
		}
		m[t.Src(kv.Key)] = kv.Value
	}
	return m
}

func typeName(t *tl.T, e ast.Expr) string {
	cl, ok := e.(*ast.CompositeLit)
	if !ok || cl.Type == nil {
		return ""
	}
	if _, isArr := cl.Type.(*ast.ArrayType); isArr {
		return ""
	}
	s := t.Src(cl.Type)
	if i := strings.LastIndex(s, "."); i >= 0 {
		s = s[i+1:]
	}
	return s
}

// topVars returns name → value of every single-valued package-level var of a file.
func topVars(t *tl.T, rel string) map[string]ast.Expr {
	m := map[string]ast.Expr{}
	for _, d := range t.File(rel).Decls {
		gd, ok := d.(*ast.GenDecl)
		if !ok || gd.Tok != token.VAR {
			continue
		}
		for _, s := range gd.Specs {
			vs := s.(*ast.ValueSpec)
			for i, n := range vs.Names {
				if i < len(vs.Values) {
					m[n.Name] = vs.Values[i]
				}
			}
		}
	}
	return m
}

func neutralOf(t *tl.T, e ast.Expr) map[string]string {
	if typeName(t, e) != "Neutral" {
		t.Fail("expected a Neutral literal, got %s", t.Src(e))
	}
	out := map[string]string{}
	for k, v := range compositeFields(t, e) {
		s, ok := t.StringLit(v)
		if !ok {
			t.Fail("Neutral field %s is not a string literal", k)
		}
		if !isCode(k) || !strings.HasPrefix(k, "N") {
			t.Fail("unexpected Neutral field %s", k)
		}
		out[k] = s
	}
	return out
}

func leanIdent(s string) string { return strings.ToLower(s[:1]) + s[1:] }

func gen(t *tl.T) {
	// ---------------------------------------------------------------- d2themes.go
	const thGo = "d2themes/d2themes.go"
	// SpecialRules struct fields
	var ruleFields []string
	for _, d := range t.File(thGo).Decls {
		gd, ok := d.(*ast.GenDecl)
		if !ok || gd.Tok != token.TYPE {
			continue
		}
		for _, s := range gd.Specs {
			ts := s.(*ast.TypeSpec)
			if ts.Name.Name != "SpecialRules" {
				continue
			}
			st, ok := ts.Type.(*ast.StructType)
			if !ok {
				t.Fail("SpecialRules is not a struct")
			}
			for _, f := range st.Fields.List {
				if t.Src(f.Type) != "bool" {
					t.Fail("SpecialRules field of type %s (model has only boolean rules)", t.Src(f.Type))
				}
				for _, n := range f.Names {
					ruleFields = append(ruleFields, n.Name)
				}
			}
		}
	}
	wantRules := []string{"Mono", "NoCornerRadius", "OuterContainerDoubleBorder", "ContainerDots", "CapsLock", "C4", "AllPaper"}
	if strings.Join(ruleFields, ",") != strings.Join(wantRules, ",") {
		t.Fail("SpecialRules fields are %v, the model (D2V.Themes.Rules) knows %v", ruleFields, wantRules)
	}
	t.Fact("SpecialRules fields: %s", strings.Join(ruleFields, ","))

	// shared Neutral variables of package d2themes
	neutrals := map[string]map[string]string{}
	for name, v := range topVars(t, thGo) {
		if typeName(t, v) == "Neutral" {
			neutrals["d2themes."+name] = neutralOf(t, v)
		}
	}

	// ApplyOverrides
	ao := t.Func(thGo, "Theme", "ApplyOverrides")
	type pair struct{ a, b string }
	var ovPairs []pair
	for _, st := range ao.Body.List {
		ifs, ok := st.(*ast.IfStmt)
		if !ok {
			continue
		}
		cond := t.Src(ifs.Cond)
		if cond == "overrides == nil" {
			continue
		}
		m := regexp.MustCompile(`^overrides\.(\w+) != nil$`).FindStringSubmatch(cond)
		if m == nil {
			t.Fail("ApplyOverrides: unexpected condition %q", cond)
		}
		if len(ifs.Body.List) != 1 || ifs.Else != nil {
			t.Fail("ApplyOverrides: unexpected body under %q", cond)
		}
		as, ok := ifs.Body.List[0].(*ast.AssignStmt)
		if !ok || len(as.Lhs) != 1 || len(as.Rhs) != 1 || as.Tok != token.ASSIGN {
			t.Fail("ApplyOverrides: unexpected statement under %q", cond)
		}
		if t.Src(as.Rhs[0]) != "*overrides."+m[1] {
			t.Fail("ApplyOverrides: under %q the value assigned is %s", cond, t.Src(as.Rhs[0]))
		}
		if !isCode(m[1]) {
			t.Fail("ApplyOverrides: override field %s is not a theme colour code", m[1])
		}
		ovPairs = append(ovPairs, pair{m[1], paletteField(t, as.Lhs[0])})
	}
	if len(ovPairs) == 0 {
		t.Fail("ApplyOverrides: no assignment found")
	}
	t.Fact("ApplyOverrides: %d assignments", len(ovPairs))

	// ResolveThemeColor
	rt := t.Func(thGo, "", "ResolveThemeColor")
	guardOK := false
	var rcases []pair
	defaultRet := "?"
	for _, st := range rt.Body.List {
		switch x := st.(type) {
		case *ast.IfStmt:
			if t.Src(x.Cond) == "!color.IsThemeColor(code)" && len(x.Body.List) == 1 && t.Src(x.Body.List[0]) == "return code" {
				guardOK = true
			}
		case *ast.SwitchStmt:
			if t.Src(x.Tag) != "code" {
				t.Fail("ResolveThemeColor: switch over %s", t.Src(x.Tag))
			}
			for _, c := range x.Body.List {
				cc := c.(*ast.CaseClause)
				if len(cc.Body) != 1 {
					t.Fail("ResolveThemeColor: unexpected case body")
				}
				ret, ok := cc.Body[0].(*ast.ReturnStmt)
				if !ok || len(ret.Results) != 1 {
					t.Fail("ResolveThemeColor: case does not return one value")
				}
				if cc.List == nil {
					s, ok := t.StringLit(ret.Results[0])
					if !ok {
						t.Fail("ResolveThemeColor: default returns %s", t.Src(ret.Results[0]))
					}
					defaultRet = s
					continue
				}
				for _, l := range cc.List {
					s, ok := t.StringLit(l)
					if !ok {
						t.Fail("ResolveThemeColor: non literal case label")
					}
					rcases = append(rcases, pair{s, paletteField(t, ret.Results[0])})
				}
			}
		}
	}
	if !guardOK {
		t.Fail("ResolveThemeColor: the guard `if !color.IsThemeColor(code) { return code }` is gone")
	}
	if defaultRet != "" {
		t.Fail("ResolveThemeColor: default branch returns %q", defaultRet)
	}
	t.Fact("ResolveThemeColor: %d cases", len(rcases))

	// IsDark
	isDark := t.Func(thGo, "Theme", "IsDark")
	m := regexp.MustCompile(`^return t\.ID >= (\d+) && t\.ID < (\d+)$`).FindStringSubmatch(t.Src(isDark.Body.List[0]))
	if m == nil {
		t.Fail("IsDark: unexpected body %s", t.Src(isDark.Body))
	}
	darkLo, darkHi := m[1], m[2]

	// ---------------------------------------------------------------- lib/color: themeColorRegex
	rx := t.Var("lib/color/color.go", "themeColorRegex")
	call, ok := rx.(*ast.CallExpr)
	if !ok || t.Src(call.Fun) != "regexp.MustCompile" || len(call.Args) != 1 {
		t.Fail("themeColorRegex is not regexp.MustCompile(literal)")
	}
	rxs, ok := t.StringLit(call.Args[0])
	if !ok {
		t.Fail("themeColorRegex: not a literal")
	}
	mm := regexp.MustCompile(`^\^\((.*)\)\$$`).FindStringSubmatch(rxs)
	if mm == nil {
		t.Fail("themeColorRegex %q is not of the form ^(alt|alt|…)$", rxs)
	}
	var rxCodes []string
	for _, alt := range strings.Split(mm[1], "|") {
		a := regexp.MustCompile(`^([A-Za-z0-9]*)\[([0-9])-([0-9])\]$`).FindStringSubmatch(alt)
		b := regexp.MustCompile(`^([A-Za-z0-9]*)\[([0-9A-Za-z]+)\]$`).FindStringSubmatch(alt)
		c := regexp.MustCompile(`^[A-Za-z0-9]+$`).MatchString(alt)
		switch {
		case a != nil:
			for d := a[2][0]; d <= a[3][0]; d++ {
				rxCodes = append(rxCodes, a[1]+string(d))
			}
		case b != nil:
			for _, d := range b[2] {
				rxCodes = append(rxCodes, b[1]+string(d))
			}
		case c:
			rxCodes = append(rxCodes, alt)
		default:
			t.Fail("themeColorRegex alternative %q not understood", alt)
		}
	}
	t.Fact("themeColorRegex %s matches %d strings", rxs, len(rxCodes))

	// ---------------------------------------------------------------- catalog
	const catDir = "d2themes/d2themescatalog"
	ents, err := os.ReadDir(filepath.Join(t.Repo, catDir))
	if err != nil {
		t.Fail("cannot list %s: %v", catDir, err)
	}
	catVars := map[string]ast.Expr{}
	var files []string
	for _, e := range ents {
		if strings.HasSuffix(e.Name(), ".go") && !strings.HasSuffix(e.Name(), "_test.go") {
			files = append(files, e.Name())
		}
	}
	sort.Strings(files)
	for _, f := range files {
		for k, v := range topVars(t, catDir+"/"+f) {
			catVars[k] = v
		}
	}
	for name, v := range catVars {
		if typeName(t, v) == "Neutral" {
			neutrals[name] = neutralOf(t, v)
		}
	}
	themes := map[string]*theme{}
	for name, v := range catVars {
		if typeName(t, v) != "Theme" {
			continue
		}
		f := compositeFields(t, v)
		th := &theme{varName: name, colors: map[string]string{}, rules: map[string]bool{}}
		for k := range f {
			switch k {
			case "ID", "Name", "Colors", "SpecialRules":
			default:
				t.Fail("theme %s sets unknown field %s", name, k)
			}
		}
		idl, ok := f["ID"].(*ast.BasicLit)
		if !ok || idl.Kind != token.INT {
			t.Fail("theme %s: ID is not an integer literal", name)
		}
		th.id, _ = strconv.ParseInt(idl.Value, 0, 64)
		th.name, ok = t.StringLit(f["Name"])
		if !ok {
			t.Fail("theme %s: Name is not a literal", name)
		}
		if f["Colors"] == nil || typeName(t, f["Colors"]) != "ColorPalette" {
			t.Fail("theme %s: no ColorPalette literal", name)
		}
		for k, cv := range compositeFields(t, f["Colors"]) {
			if k == "Neutrals" {
				var nm map[string]string
				if typeName(t, cv) == "Neutral" {
					nm = neutralOf(t, cv)
				} else if n, ok := neutrals[t.Src(cv)]; ok {
					nm = n
				} else {
					t.Fail("theme %s: Neutrals %s not resolvable", name, t.Src(cv))
				}
				for a, b := range nm {
					th.colors[a] = b
				}
				continue
			}
			if !isCode(k) || strings.HasPrefix(k, "N") {
				t.Fail("theme %s: unexpected palette field %s", name, k)
			}
			s, ok := t.StringLit(cv)
			if !ok {
				t.Fail("theme %s: colour %s is not a literal", name, k)
			}
			th.colors[k] = s
		}
		if sr := f["SpecialRules"]; sr != nil {
			for k, rv := range compositeFields(t, sr) {
				switch t.Src(rv) {
				case "true":
					th.rules[k] = true
				case "false":
					th.rules[k] = false
				default:
					t.Fail("theme %s: rule %s = %s", name, k, t.Src(rv))
				}
				found := false
				for _, w := range wantRules {
					found = found || w == k
				}
				if !found {
					t.Fail("theme %s: unknown rule %s", name, k)
				}
			}
		}
		themes[name] = th
	}
	catList := func(name string) []string {
		v, ok := catVars[name]
		if !ok {
			t.Fail("%s not found", name)
		}
		cl, ok := v.(*ast.CompositeLit)
		if !ok {
			t.Fail("%s is not a literal", name)
		}
		var out []string
		for _, el := range cl.Elts {
			id, ok := el.(*ast.Ident)
			if !ok || themes[id.Name] == nil {
				t.Fail("%s: element %s is not a theme variable", name, t.Src(el))
			}
			out = append(out, id.Name)
		}
		return out
	}
	light := catList("LightCatalog")
	dark := catList("DarkCatalog")
	t.Fact("catalog: %d light, %d dark themes (%d theme variables)", len(light), len(dark), len(themes))

	// Find: order of the range loops and the zero-value return
	find := t.Func(catDir+"/catalog.go", "", "Find")
	var findOrder []string
	zeroRet := false
	for _, st := range find.Body.List {
		switch x := st.(type) {
		case *ast.RangeStmt:
			findOrder = append(findOrder, t.Src(x.X))
			body := t.Src(x.Body)
			if !strings.Contains(body, "if theme.ID == id { return theme }") {
				t.Fail("Find: loop body is %s", body)
			}
		case *ast.ReturnStmt:
			zeroRet = t.Src(x) == "return d2themes.Theme{}"
		}
	}
	if !zeroRet || len(findOrder) == 0 {
		t.Fail("Find: unexpected shape (order %v, zero return %v)", findOrder, zeroRet)
	}
	for _, o := range findOrder {
		if o != "LightCatalog" && o != "DarkCatalog" {
			t.Fail("Find searches %s", o)
		}
	}

	// ---------------------------------------------------------------- d2svg: singleThemeRulesets / ThemeCSS / Render
	const svgGo = "d2renderers/d2svg/d2svg.go"
	str := t.Func(svgGo, "", "singleThemeRulesets")
	var sheetProps []string
	var sheetRules []pair
	var appendixFill string
	var mdVars []pair
	var sketch []pair
	findThenOverride := 0
	var lastLum string
	for _, st := range str.Body.List {
		src := t.Src(st)
		if src == "theme := d2themescatalog.Find(themeID)" && findThenOverride == 0 {
			findThenOverride = 1
		}
		if src == "theme.ApplyOverrides(overrides)" && findThenOverride == 1 {
			findThenOverride = 2
		}
		if rs, ok := st.(*ast.RangeStmt); ok && t.Src(rs.Value) == "property" {
			sheetProps = t.StringElems(rs.X, nil)
			// body: out += fmt.Sprintf(format, args…)
			var sp *ast.CallExpr
			ast.Inspect(rs.Body, func(n ast.Node) bool {
				if c, ok := n.(*ast.CallExpr); ok && t.Src(c.Fun) == "fmt.Sprintf" && sp == nil {
					sp = c
				}
				return true
			})
			if sp == nil {
				t.Fail("singleThemeRulesets: no Sprintf in the property loop")
			}
			format, ok := t.StringLit(sp.Args[0])
			if !ok {
				t.Fail("singleThemeRulesets: rule format is not a literal")
			}
			lines := regexp.MustCompile(`\.%s \.%s-(\w+)\{%s:%s;\}`).FindAllStringSubmatch(format, -1)
			rest := regexp.MustCompile(`\.%s \.%s-(\w+)\{%s:%s;\}`).ReplaceAllString(format, "")
			if strings.TrimSpace(rest) != "" {
				t.Fail("singleThemeRulesets: rule format has unexpected text %q", strings.TrimSpace(rest))
			}
			args := sp.Args[1:]
			if len(args) != 4*len(lines) {
				t.Fail("singleThemeRulesets: %d rules but %d arguments", len(lines), len(args))
			}
			for i, l := range lines {
				a := args[4*i : 4*i+4]
				if t.Src(a[0]) != "diagramHash" || t.Src(a[1]) != "property" || t.Src(a[2]) != "property" {
					t.Fail("singleThemeRulesets: rule %s has arguments %s %s %s", l[1], t.Src(a[0]), t.Src(a[1]), t.Src(a[2]))
				}
				sheetRules = append(sheetRules, pair{l[1], paletteField(t, a[3])})
			}
			continue
		}
		// out += fmt.Sprintf(".appendix …") / ".md{…}" / ".sketch-overlay-%s{…}"
		var sp *ast.CallExpr
		var lum *ast.CallExpr
		ast.Inspect(st, func(n ast.Node) bool {
			if c, ok := n.(*ast.CallExpr); ok {
				if t.Src(c.Fun) == "fmt.Sprintf" && sp == nil {
					sp = c
				}
				if t.Src(c.Fun) == "color.LuminanceCategory" && lum == nil {
					lum = c
				}
			}
			return true
		})
		if lum != nil {
			lastLum = paletteField(t, lum.Args[0])
		}
		if sp == nil {
			continue
		}
		format, ok := t.StringLit(sp.Args[0])
		if !ok {
			continue
		}
		switch {
		case strings.HasPrefix(format, ".appendix text.text{fill:%s}"):
			appendixFill = paletteField(t, sp.Args[1])
		case strings.HasPrefix(format, ".md{"):
			names := regexp.MustCompile(`(--[a-z-]+):%s;`).FindAllStringSubmatch(format, -1)
			if len(names) != len(sp.Args)-1 {
				t.Fail("singleThemeRulesets: .md format has %d variables and %d arguments", len(names), len(sp.Args)-1)
			}
			for i, n := range names {
				if lit, ok := t.StringLit(sp.Args[1+i]); ok {
					mdVars = append(mdVars, pair{n[1], "=" + lit})
				} else {
					mdVars = append(mdVars, pair{n[1], paletteField(t, sp.Args[1+i])})
				}
			}
		case strings.HasPrefix(format, ".sketch-overlay-%s{"):
			cls := t.Src(sp.Args[1])
			if !strings.HasPrefix(cls, "color.") || !isCode(strings.TrimPrefix(cls, "color.")) {
				t.Fail("singleThemeRulesets: sketch overlay class %s", cls)
			}
			if t.Src(sp.Args[2]) != "lc" {
				t.Fail("singleThemeRulesets: sketch overlay category argument is %s", t.Src(sp.Args[2]))
			}
			sketch = append(sketch, pair{strings.TrimPrefix(cls, "color."), lastLum})
		}
	}
	if findThenOverride != 2 {
		t.Fail("singleThemeRulesets: `theme := d2themescatalog.Find(themeID); theme.ApplyOverrides(overrides)` not found")
	}
	if len(sheetRules) == 0 || len(sheetProps) == 0 || appendixFill == "" || len(mdVars) == 0 {
		t.Fail("singleThemeRulesets: rule blocks not found (props %d rules %d appendix %q md %d)", len(sheetProps), len(sheetRules), appendixFill, len(mdVars))
	}
	t.Fact("singleThemeRulesets: %d properties x %d class rules, %d md variables, %d sketch overlays", len(sheetProps), len(sheetRules), len(mdVars), len(sketch))

	// ThemeCSS: which (id, overrides) go to the light part and which into the @media block
	tc := t.Func(svgGo, "", "ThemeCSS")
	tcs := t.Src(tc.Body)
	for _, want := range []string{
		"themeID = &d2themescatalog.NeutralDefault.ID",
		"out, err := singleThemeRulesets(diagramHash, *themeID, overrides)",
		"darkOut, err := singleThemeRulesets(diagramHash, *darkThemeID, darkOverrides)",
		`out += fmt.Sprintf("@media screen and (prefers-color-scheme:dark){%s}", darkOut)`,
	} {
		if !strings.Contains(tcs, want) {
			t.Fail("ThemeCSS: statement %q not found", want)
		}
	}
	// Render: inline theme
	rd := t.Func(svgGo, "", "Render")
	inlineOK := false
	ast.Inspect(rd.Body, func(n ast.Node) bool {
		ifs, ok := n.(*ast.IfStmt)
		if !ok || t.Src(ifs.Cond) != "darkThemeID == nil" {
			return true
		}
		b := t.Src(ifs.Body)
		if strings.Contains(b, "inlineTheme = go2.Pointer(d2themescatalog.Find(themeID))") &&
			strings.Contains(b, "inlineTheme.ApplyOverrides(opts.ThemeOverrides)") {
			inlineOK = true
		}
		return true
	})
	if !inlineOK {
		t.Fail("d2svg.Render: `if darkThemeID == nil { inlineTheme = Find(themeID); inlineTheme.ApplyOverrides(opts.ThemeOverrides) }` not found")
	}
	if !strings.Contains(t.Src(rd.Body), "ThemeCSS(diagramHash, &themeID, darkThemeID, opts.ThemeOverrides, opts.DarkThemeOverrides)") {
		t.Fail("d2svg.Render: ThemeCSS call with (themeID, darkThemeID, ThemeOverrides, DarkThemeOverrides) not found")
	}

	// ---------------------------------------------------------------- ThemableElement.Render colour branch
	er := t.Func("d2themes/element.go", "ThemableElement", "Render")
	type eprop struct{ class, attr, field string }
	var eprops []eprop
	for _, st := range er.Body.List {
		ifs, ok := st.(*ast.IfStmt)
		if !ok {
			continue
		}
		m := regexp.MustCompile(`^color\.IsThemeColor\(el\.(\w+)\)$`).FindStringSubmatch(t.Src(ifs.Cond))
		if m == nil {
			continue
		}
		body := t.Src(ifs.Body)
		cm := regexp.MustCompile(`class \+= fmt\.Sprintf\(" ([a-z-]+)-%s", el\.(\w+)\)`).FindStringSubmatch(body)
		im := regexp.MustCompile("if el\\.inlineTheme != nil \\{ out \\+= fmt\\.Sprintf\\(` ([a-z-]+)=\"%s\"`, ResolveThemeColor\\(\\*el\\.inlineTheme, el\\.(\\w+)\\)\\) \\}").FindStringSubmatch(body)
		if cm == nil || im == nil || cm[2] != m[1] || im[2] != m[1] {
			t.Fail("ThemableElement.Render: colour branch of %s not understood: %s", m[1], body)
		}
		eprops = append(eprops, eprop{cm[1], im[1], m[1]})
	}
	if len(eprops) == 0 {
		t.Fail("ThemableElement.Render: no colour branch found")
	}
	t.Fact("ThemableElement.Render: %d themable properties", len(eprops))

	// ---------------------------------------------------------------- d2compiler.compileThemeOverrides (source-level overrides)
	cto := t.Func("d2compiler/compile.go", "", "compileThemeOverrides")
	var cfgCases []pair
	upper := false
	ast.Inspect(cto.Body, func(n ast.Node) bool {
		sw, ok := n.(*ast.SwitchStmt)
		if !ok {
			return true
		}
		upper = t.Src(sw.Tag) == "strings.ToUpper(f.Name.ScalarString())"
		for _, c := range sw.Body.List {
			cc := c.(*ast.CaseClause)
			if cc.List == nil {
				continue
			}
			if len(cc.Body) != 1 {
				t.Fail("compileThemeOverrides: case %s has %d statements", t.Src(cc.List[0]), len(cc.Body))
			}
			as, ok := cc.Body[0].(*ast.AssignStmt)
			if !ok || len(as.Lhs) != 1 || t.Src(as.Rhs[0]) != "go2.Pointer(f.Primary().Value.ScalarString())" {
				t.Fail("compileThemeOverrides: unexpected statement under case %s: %s", t.Src(cc.List[0]), t.Src(cc.Body[0]))
			}
			field := strings.TrimPrefix(t.Src(as.Lhs[0]), "themeOverrides.")
			if !isCode(field) {
				t.Fail("compileThemeOverrides: assigns %s", t.Src(as.Lhs[0]))
			}
			for _, l := range cc.List {
				s, ok := t.StringLit(l)
				if !ok {
					t.Fail("compileThemeOverrides: non-literal case label")
				}
				cfgCases = append(cfgCases, pair{s, field})
			}
		}
		return false
	})
	if len(cfgCases) == 0 || !upper {
		t.Fail("compileThemeOverrides: switch over strings.ToUpper(f.Name.ScalarString()) not found")
	}
	t.Fact("compileThemeOverrides: %d cases", len(cfgCases))

	// ---------------------------------------------------------------- Lean
	t.P("import D2V.Model.ThemeCode\n")
	t.P("namespace D2V.Gen.Themes\nopen D2V.Themes\n\n")
	t.P("/-- strings matched by lib/color.themeColorRegex `%s` -/\n", rxs)
	t.P("def themeColorCodes : List String := %s\n\n", tl.LeanStringList(rxCodes))
	t.P("def specialRuleFields : List String := %s\n\n", tl.LeanStringList(ruleFields))
	t.P("/-- Theme.IsDark: darkLo ≤ ID < darkHi -/\ndef darkLo : Int := %s\ndef darkHi : Int := %s\n\n", darkLo, darkHi)
	pairsLean := func(ps []pair, first func(string) string) string {
		var xs []string
		for _, p := range ps {
			xs = append(xs, fmt.Sprintf("(%s, Code.%s)", first(p.a), p.b))
		}
		return "[" + strings.Join(xs, ", ") + "]"
	}
	asCode := func(s string) string { return "Code." + s }
	t.P("/-- Theme.ApplyOverrides: (override field, palette field assigned), in source order -/\n")
	t.P("def overridePairs : List (Code × Code) := %s\n\n", pairsLean(ovPairs, asCode))
	t.P("/-- ResolveThemeColor: (case label, palette field returned) -/\n")
	t.P("def resolveCases : List (String × Code) := %s\n\n", pairsLean(rcases, tl.LeanString))
	t.P("/-- singleThemeRulesets: properties looped over -/\n")
	t.P("def sheetProps : List String := %s\n\n", tl.LeanStringList(sheetProps))
	t.P("/-- singleThemeRulesets: (class suffix in `.<prop>-<suffix>`, palette field printed) -/\n")
	t.P("def sheetRules : List (String × Code) := %s\n\n", pairsLean(sheetRules, tl.LeanString))
	t.P("/-- `.appendix text.text{fill:…}` -/\ndef appendixFill : Code := Code.%s\n\n", appendixFill)
	var mdc, mdl []string
	for _, p := range mdVars {
		if strings.HasPrefix(p.b, "=") {
			mdl = append(mdl, fmt.Sprintf("(%s, %s)", tl.LeanString(p.a), tl.LeanString(p.b[1:])))
		} else {
			mdc = append(mdc, fmt.Sprintf("(%s, Code.%s)", tl.LeanString(p.a), p.b))
		}
	}
	t.P("/-- `.md{--var:colour;…}`: variables bound to a palette field / to a literal -/\n")
	t.P("def mdVars : List (String × Code) := [%s]\n", strings.Join(mdc, ", "))
	t.P("def mdLiterals : List (String × String) := [%s]\n\n", strings.Join(mdl, ", "))
	t.P("/-- `.sketch-overlay-<code>`: (class code, palette field whose luminance category is used) -/\n")
	t.P("def sketchOverlays : List (String × Code) := %s\n\n", pairsLean(sketch, tl.LeanString))
	var eps []string
	for _, e := range eprops {
		eps = append(eps, fmt.Sprintf("(%s, %s, %s)", tl.LeanString(e.class), tl.LeanString(e.attr), tl.LeanString(e.field)))
	}
	t.P("/-- ThemableElement.Render: (class prefix, inline attribute, element field) -/\n")
	t.P("def elementProps : List (String × String × String) := [%s]\n\n", strings.Join(eps, ", "))
	names := tl.SortedKeys(themes)
	for _, n := range names {
		th := themes[n]
		var cs []string
		for _, c := range codes {
			v, ok := th.colors[c]
			if !ok {
				t.Fail("theme %s does not define colour %s", n, c)
			}
			cs = append(cs, fmt.Sprintf("%s := %s", strings.ToLower(c), tl.LeanString(v)))
		}
		var rs []string
		for _, r := range wantRules {
			if th.rules[r] {
				rs = append(rs, fmt.Sprintf("%s := true", leanIdent(r)))
			}
		}
		t.P("def %s : ThemeRec :=\n  { id := %d, name := %s,\n    colors := { %s },\n    rules := { %s } }\n\n",
			leanIdent(n)+"Theme", th.id, tl.LeanString(th.name), strings.Join(cs, ", "), strings.Join(rs, ", "))
	}
	lst := func(xs []string) string {
		var o []string
		for _, x := range xs {
			o = append(o, leanIdent(x)+"Theme")
		}
		return "[" + strings.Join(o, ", ") + "]"
	}
	t.P("def lightCatalog : List ThemeRec := %s\n", lst(light))
	t.P("def darkCatalog : List ThemeRec := %s\n\n", lst(dark))
	t.P("/-- the order in which d2themescatalog.Find searches -/\n")
	var fo []string
	for _, o := range findOrder {
		if o == "LightCatalog" {
			fo = append(fo, "lightCatalog")
		} else {
			fo = append(fo, "darkCatalog")
		}
	}
	t.P("def findSearch : List ThemeRec := %s\n\n", strings.Join(fo, " ++ "))
	t.P("/-- ThemeCSS: theme used when no ID is given -/\ndef defaultTheme : ThemeRec := neutralDefaultTheme\n\n")
	t.P("/-- d2compiler.compileThemeOverrides: (upper-cased key of `theme-overrides`, ThemeOverrides field set) -/\n")
	t.P("def configOverrideCases : List (String × Code) := %s\n\n", pairsLean(cfgCases, tl.LeanString))
	t.P("end D2V.Gen.Themes\n")
}
