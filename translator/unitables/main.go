// unitables — dumps the Unicode range tables the parser consults (unicode.IsSpace / IsDigit / IsLetter of the Go
// toolchain that builds the tree under test) into lean/D2V/Gen/UniTables.lean, so the Lean parser model classifies
// runes exactly as the Go parser does.  Facts: the Unicode version and the table sizes.
package main

import (
	"unicode"

	"d2v/translator/tl"
)

func dump(t *tl.T, name string, rt *unicode.RangeTable) {
	t.P("def %s : Array (Nat × Nat × Nat) := #[", name)
	n := 0
	for _, r := range rt.R16 {
		if n > 0 {
			t.P(", ")
		}
		if n%8 == 7 {
			t.P("\n  ")
		}
		t.P("(%d, %d, %d)", r.Lo, r.Hi, r.Stride)
		n++
	}
	for _, r := range rt.R32 {
		if n > 0 {
			t.P(", ")
		}
		if n%8 == 7 {
			t.P("\n  ")
		}
		t.P("(%d, %d, %d)", r.Lo, r.Hi, r.Stride)
		n++
	}
	t.P("]\n\n")
	t.Fact("UniTables.%s ranges=%d", name, n)
}

func gen(t *tl.T) {
	t.P("/-! Unicode range tables (lo, hi, stride) of Go's `unicode` package, version %s. -/\n", unicode.Version)
	t.P("namespace D2V.Gen.UniTables\n\n")
	t.P("def unicodeVersion : String := %s\n\n", tl.LeanString(unicode.Version))
	dump(t, "whiteSpace", unicode.White_Space)
	dump(t, "digit", unicode.Nd)
	dump(t, "letter", unicode.L)
	t.P("end D2V.Gen.UniTables\n")
	t.Fact("UniTables.unicodeVersion=%s", unicode.Version)
	// sanity: the parser's newline must be a space (nonspace_not_newline rests on it)
	if !unicode.IsSpace('\n') {
		t.Fail("unicode.IsSpace('\\n') is false")
	}
}

func main() { tl.Main("UniTables", gen) }
