// parsersites — tie R of C01/C02: reads d2parser/parse.go and d2ast/d2ast.go of the tree under test and emits
// lean/D2V/Gen/ParserSites.lean:
//
//   - callSites: every `p.replay(x)`, `<pos>.Subtract(x, …)` and `<pos>.SubtractString(x, …)` call of parse.go with
//     its enclosing function, the argument's source text and the *class* of the argument, derived from where the
//     argument comes from (a rune/string literal without newline; the first result of peekNotSpace/readNotSpace —
//     through every assignment to that variable; a parameter all of whose call sites pass such a value).  Anything
//     else is "UNCLASSIFIED(<why>)" and leaves the Lean obligation `callSites_safe` undischarged.
//   - the stop sets of parseUnquotedString (the rune lists of its switch statements), used by the model,
//   - d2ast.UnquotedKeySpecials / UnquotedValueSpecials,
//   - which variant of two defect sites the tree contains (Cfg of the model): the field parseArray's deferred
//     Range.End copies, and whether lastPatternIndex is reset together with sb.
package main

import (
	"fmt"
	"go/ast"
	"go/token"
	"strconv"
	"strings"

	"d2v/translator/tl"
)

const file = "d2parser/parse.go"

func isP(e ast.Expr, method string) bool {
	c, ok := e.(*ast.CallExpr)
	if !ok {
		return false
	}
	s, ok := c.Fun.(*ast.SelectorExpr)
	if !ok || s.Sel.Name != method {
		return false
	}
	id, ok := s.X.(*ast.Ident)
	return ok && id.Name == "p"
}

type site struct{ fn, callee, arg, class string }

func leanChar(r rune) string {
	switch r {
	case '\n':
		return `'\n'`
	case '\'':
		return `'\''`
	case '\\':
		return `'\\'`
	case '\t':
		return `'\t'`
	}
	return "'" + string(r) + "'"
}

func gen(t *tl.T) {
	f := t.File(file)
	funcs := map[string]*ast.FuncDecl{}
	for _, d := range f.Decls {
		if fd, ok := d.(*ast.FuncDecl); ok && fd.Body != nil {
			funcs[fd.Name.Name] = fd
		}
	}

	var classify func(fd *ast.FuncDecl, e ast.Expr, depth int) string
	classify = func(fd *ast.FuncDecl, e ast.Expr, depth int) string {
		switch x := e.(type) {
		case *ast.BasicLit:
			s, err := strconv.Unquote(x.Value)
			if err != nil {
				return "UNCLASSIFIED(literal?)"
			}
			if strings.Contains(s, "\n") {
				return "UNCLASSIFIED(newline-literal)"
			}
			return "literal"
		case *ast.Ident:
			if x.Obj == nil {
				return "UNCLASSIFIED(unresolved " + x.Name + ")"
			}
			if fld, ok := x.Obj.Decl.(*ast.Field); ok {
				// a parameter: every call of this function in the file must pass a classified argument
				if depth > 3 {
					return "UNCLASSIFIED(param-depth)"
				}
				idx := -1
				n := 0
				for _, pf := range fd.Type.Params.List {
					for range pf.Names {
						if pf == fld {
							idx = n
						}
						n++
					}
				}
				if idx < 0 {
					return "UNCLASSIFIED(param?)"
				}
				calls := 0
				bad := ""
				for _, caller := range funcs {
					ast.Inspect(caller.Body, func(n ast.Node) bool {
						c, ok := n.(*ast.CallExpr)
						if ok && isP(c, fd.Name.Name) && idx < len(c.Args) {
							calls++
							if cl := classify(caller, c.Args[idx], depth+1); strings.HasPrefix(cl, "UNCLASSIFIED") {
								bad = cl
							}
						}
						return true
					})
				}
				if calls == 0 {
					return "UNCLASSIFIED(param-never-passed)"
				}
				if bad != "" {
					return "UNCLASSIFIED(param<-" + bad + ")"
				}
				return "param-nonspace"
			}
			// a local: every assignment to this object must take it from peekNotSpace / readNotSpace (result 0)
			n := 0
			bad := ""
			ast.Inspect(fd.Body, func(nd ast.Node) bool {
				as, ok := nd.(*ast.AssignStmt)
				if !ok {
					return true
				}
				for i, l := range as.Lhs {
					id, ok := l.(*ast.Ident)
					if !ok || id.Obj != x.Obj {
						continue
					}
					n++
					if i == 0 && len(as.Rhs) == 1 && (isP(as.Rhs[0], "peekNotSpace") || isP(as.Rhs[0], "readNotSpace")) {
						continue
					}
					bad = t.Src(as)
				}
				return true
			})
			if n == 0 {
				return "UNCLASSIFIED(no-assignment " + x.Name + ")"
			}
			if bad != "" {
				return "UNCLASSIFIED(" + bad + ")"
			}
			return "nonspace"
		}
		return "UNCLASSIFIED(" + t.Src(e) + ")"
	}

	var sites []site
	names := tl.SortedKeys(funcs)
	for _, name := range names {
		fd := funcs[name]
		ast.Inspect(fd.Body, func(n ast.Node) bool {
			c, ok := n.(*ast.CallExpr)
			if !ok {
				return true
			}
			s, ok := c.Fun.(*ast.SelectorExpr)
			if !ok || len(c.Args) == 0 {
				return true
			}
			switch s.Sel.Name {
			case "replay":
				if isP(c, "replay") {
					sites = append(sites, site{name, "replay", t.Src(c.Args[0]), classify(fd, c.Args[0], 0)})
				}
			case "Subtract", "SubtractString":
				sites = append(sites, site{name, t.Src(s.X) + "." + s.Sel.Name, t.Src(c.Args[0]), classify(fd, c.Args[0], 0)})
			}
			return true
		})
	}
	if len(sites) == 0 {
		t.Fail("no replay/Subtract call found in %s", file)
	}

	// stop sets of parseUnquotedString
	pus, ok := funcs["parseUnquotedString"]
	if !ok {
		t.Fail("parseUnquotedString not found")
	}
	var sets [][]rune
	ast.Inspect(pus.Body, func(n ast.Node) bool {
		sw, ok := n.(*ast.SwitchStmt)
		if !ok {
			return true
		}
		for _, st := range sw.Body.List {
			cc := st.(*ast.CaseClause)
			var rs []rune
			for _, l := range cc.List {
				bl, ok := l.(*ast.BasicLit)
				if !ok || bl.Kind != token.CHAR {
					rs = nil
					break
				}
				s, err := strconv.Unquote(bl.Value)
				if err != nil {
					rs = nil
					break
				}
				rs = append(rs, []rune(s)[0])
			}
			if len(rs) > 1 {
				sets = append(sets, rs)
			}
		}
		return true
	})
	// expected in source order: the edge-group look-ahead set, the top-level set, the key set, (the '-' case is a
	// single rune and skipped), the top-level set again after a dash
	if len(sets) != 4 {
		t.Fail("parseUnquotedString: expected 4 multi-rune case lists, found %d", len(sets))
	}

	// code variants
	pa, ok := funcs["parseArray"]
	if !ok {
		t.Fail("parseArray not found")
	}
	endField := ""
	ast.Inspect(pa.Body, func(n ast.Node) bool {
		d, ok := n.(*ast.DeferStmt)
		if !ok {
			return true
		}
		src := t.Src(d.Call)
		if strings.HasPrefix(src, "a.Range.End.From(&p.") {
			endField = strings.TrimSuffix(strings.TrimPrefix(src, "a.Range.End.From(&p."), ")")
		}
		return true
	})
	if endField != "pos" && endField != "readerPos" {
		t.Fail("parseArray: deferred Range.End source is %q (expected p.pos or p.readerPos)", endField)
	}
	patReset := false
	ast.Inspect(pus.Body, func(n ast.Node) bool {
		as, ok := n.(*ast.AssignStmt)
		if ok && as.Tok == token.ASSIGN && len(as.Lhs) == 1 && t.Src(as.Lhs[0]) == "lastPatternIndex" && t.Src(as.Rhs[0]) == "0" {
			patReset = true
		}
		return true
	})

	// parseValue: `if len(s.Value) > 1 { box.UnquotedString = s; return box }` before the keyword / number tests
	pvf, ok := funcs["parseValue"]
	if !ok {
		t.Fail("parseValue not found")
	}
	substGuard := false
	ast.Inspect(pvf.Body, func(n ast.Node) bool {
		is, ok := n.(*ast.IfStmt)
		if ok && t.Src(is.Cond) == "len(s.Value) > 1" {
			substGuard = true
		}
		return true
	})

	consts := map[string][]rune{}
	for _, name := range []string{"UnquotedKeySpecials", "UnquotedValueSpecials"} {
		e := t.Var("d2ast/d2ast.go", name)
		var rs []rune
		ast.Inspect(e, func(n ast.Node) bool {
			if bl, ok := n.(*ast.BasicLit); ok && bl.Kind == token.CHAR {
				s, err := strconv.Unquote(bl.Value)
				if err == nil {
					rs = append(rs, []rune(s)[0])
				}
			}
			return true
		})
		if len(rs) == 0 {
			t.Fail("%s: no rune literals", name)
		}
		consts[name] = rs
	}

	t.P("/-! call sites of replay / Subtract in d2parser/parse.go, the stop sets of parseUnquotedString, code variants -/\n")
	t.P("namespace D2V.Gen.ParserSites\n\n")
	t.P("/-- (enclosing function, callee, argument, class) -/\ndef callSites : List (String × String × String × String) := [\n")
	for i, s := range sites {
		sep := ","
		if i == len(sites)-1 {
			sep = ""
		}
		t.P("  (%s, %s, %s, %s)%s\n", tl.LeanString(s.fn), tl.LeanString(s.callee), tl.LeanString(s.arg), tl.LeanString(s.class), sep)
		t.Fact("ParserSites.site %s %s(%s) : %s", s.fn, s.callee, s.arg, s.class)
	}
	t.P("]\n\n")
	chars := func(rs []rune) string {
		q := make([]string, len(rs))
		for i, r := range rs {
			q[i] = leanChar(r)
		}
		return "[" + strings.Join(q, ", ") + "]"
	}
	for i, n := range []string{"edgeGroupStops", "topStops", "keyStops", "dashStops"} {
		t.P("def %s : List Char := %s\n", n, chars(sets[i]))
		t.Fact("ParserSites.%s=%q", n, string(sets[i]))
	}
	t.P("def unquotedKeySpecials : List Char := %s\n", chars(consts["UnquotedKeySpecials"]))
	t.P("def unquotedValueSpecials : List Char := %s\n\n", chars(consts["UnquotedValueSpecials"]))
	t.P("/-- parseArray's deferred `Range.End.From(&p.pos)` (true) or `&p.readerPos` (false) -/\ndef arrayEndPos : Bool := %v\n", endField == "pos")
	t.P("/-- parseUnquotedString resets lastPatternIndex when it resets sb -/\ndef patReset : Bool := %v\n\n", patReset)
	t.P("/-- parseValue keeps an unquoted string with more than one interpolation box as a string (no keyword / number test) -/\ndef valueSubstGuard : Bool := %v\n\n", substGuard)
	t.Fact("ParserSites.valueSubstGuard=%v", substGuard)
	t.Fact("ParserSites.arrayEnd=p.%s", endField)
	t.Fact("ParserSites.patReset=%v", patReset)
	t.P("end D2V.Gen.ParserSites\n")
	_ = fmt.Sprint
}

func main() { tl.Main("ParserSites", gen) }
