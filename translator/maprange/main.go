// maprange — tie R of C08 / C25: list every place where Go's unspecified map iteration order or shared mutable
// package state could reach the output of compilation (C08 packages) or rendering (C25 packages):
//
//	range       a `for … range X` whose X has a map type (go/types; d2 packages are type-checked from the tree
//	            under test, the standard library from GOROOT source, third-party imports are left opaque)
//	range?      a `range X` whose type could not be resolved (opaque third-party value) — must be classified too
//	globalwrite an assignment / inc-dec / delete / mutating method call whose target is rooted at a package-level
//	            variable of this or another d2 package,
//	            outside `init` and outside package-level initialisers
//	aliaswrite  a package-level variable of slice / map / pointer type is copied into a local (`x := G`) and the same
//	            function writes through that local (`x[i] = …`, `x.f = …`, `*x = …`, `x[i]++`): the write lands in the
//	            shared backing store
//	goroutine   a `go` statement, or `.Go(` / `.Add(` / `.Wait(` on a sync.WaitGroup / errgroup.Group: concurrency
//	            inside one compilation or render
//
// Output: lean/D2V/Gen/MapRanges.lean — `def mapRangeSites : List Site`; a site is identified by group, kind,
// file, enclosing function and the expression text — never by a line number.  D2V/Props/C08.lean holds the
// committed expectation table (site ↦ class of loop body) and proves `all_sites_classified` by `decide`, so a new
// or changed site leaves an undischarged obligation.
package main

import (
	"fmt"
	"go/ast"
	"go/build"
	"go/importer"
	"go/parser"
	"go/token"
	"go/types"
	"os"
	"path/filepath"
	"sort"
	"strings"

	"d2v/translator/tl"
)

const modPath = "oss.terrastruct.com/d2/"

var groups = []struct {
	name string
	pkgs []string
}{
	{"C08", []string{"d2parser", "d2ir", "d2compiler", "d2graph", "d2format", "d2ast", "lib/textmeasure"}},
	{"C25", []string{"d2exporter", "d2target", "d2renderers/d2svg", "d2renderers/d2sketch", "d2themes", "d2themes/d2themescatalog", "d2renderers/d2fonts", "lib/jsrunner", "lib/textmeasure", "lib/svg", "lib/shape", "lib/label", "lib/color", "d2lib", "d2layouts", "d2layouts/d2dagrelayout", "d2layouts/d2elklayout", "d2layouts/d2near", "d2layouts/d2grid", "d2layouts/d2sequence", "d2renderers/d2latex"}},
}

type pkgInfo struct {
	pkg   *types.Package
	files []*ast.File
	names []string
	info  *types.Info
}

type imp struct {
	repo  string
	fset  *token.FileSet
	std   types.Importer
	cache map[string]*pkgInfo
	busy  map[string]bool
}

func (m *imp) Import(path string) (*types.Package, error) { return m.ImportFrom(path, "", 0) }

func (m *imp) ImportFrom(path, dir string, mode types.ImportMode) (*types.Package, error) {
	if strings.HasPrefix(path, modPath) {
		pi := m.load(strings.TrimPrefix(path, modPath))
		if pi != nil {
			return pi.pkg, nil
		}
	}
	first := path
	if i := strings.Index(path, "/"); i >= 0 {
		first = path[:i]
	}
	if !strings.Contains(first, ".") {
		if p, err := m.std.Import(path); err == nil {
			return p, nil
		}
	}
	// opaque: third-party module (or unresolvable); uses of its members are type errors that we ignore
	name := path[strings.LastIndex(path, "/")+1:]
	name = strings.TrimPrefix(name, "go-")
	p := types.NewPackage(path, name)
	p.MarkComplete()
	return p, nil
}

func (m *imp) load(rel string) *pkgInfo {
	if pi, ok := m.cache[rel]; ok {
		return pi
	}
	if m.busy[rel] {
		return nil
	}
	m.busy[rel] = true
	defer delete(m.busy, rel)
	dir := filepath.Join(m.repo, rel)
	ents, err := os.ReadDir(dir)
	if err != nil {
		m.cache[rel] = nil
		return nil
	}
	ctx := build.Default
	ctx.CgoEnabled = false
	var files []*ast.File
	var names []string
	for _, e := range ents {
		n := e.Name()
		if e.IsDir() || !strings.HasSuffix(n, ".go") || strings.HasSuffix(n, "_test.go") {
			continue
		}
		if ok, _ := ctx.MatchFile(dir, n); !ok {
			continue
		}
		f, err := parser.ParseFile(m.fset, filepath.Join(dir, n), nil, parser.ParseComments)
		if err != nil {
			continue
		}
		files = append(files, f)
		names = append(names, filepath.ToSlash(filepath.Join(rel, n)))
	}
	if len(files) == 0 {
		m.cache[rel] = nil
		return nil
	}
	info := &types.Info{Types: map[ast.Expr]types.TypeAndValue{}, Uses: map[*ast.Ident]types.Object{}, Defs: map[*ast.Ident]types.Object{}}
	conf := types.Config{Importer: m, Error: func(error) {}, FakeImportC: true}
	pkg, _ := conf.Check(modPath+rel, m.fset, files, info)
	pi := &pkgInfo{pkg: pkg, files: files, names: names, info: info}
	m.cache[rel] = pi
	return pi
}

var mutators = map[string]bool{"Set": true, "Store": true, "Delete": true, "LoadOrStore": true, "Swap": true, "Add": true, "Put": true,
	"Reset": true, "Write": true, "WriteString": true, "Seed": true, "Clear": true, "CompareAndSwap": true}

type site struct{ group, kind, file, fn, expr, body string }

func funcName(fd *ast.FuncDecl) string {
	if fd.Recv != nil && len(fd.Recv.List) == 1 {
		switch x := fd.Recv.List[0].Type.(type) {
		case *ast.StarExpr:
			if id, ok := x.X.(*ast.Ident); ok {
				return id.Name + "." + fd.Name.Name
			}
			if ix, ok := x.X.(*ast.IndexExpr); ok {
				if id, ok := ix.X.(*ast.Ident); ok {
					return id.Name + "." + fd.Name.Name
				}
			}
		case *ast.Ident:
			return x.Name + "." + fd.Name.Name
		}
	}
	return fd.Name.Name
}

// root identifier of an assignable expression: a.b[c].d → a
func rootIdent(e ast.Expr) *ast.Ident {
	for {
		switch x := e.(type) {
		case *ast.Ident:
			return x
		case *ast.SelectorExpr:
			e = x.X
		case *ast.IndexExpr:
			e = x.X
		case *ast.StarExpr:
			e = x.X
		case *ast.ParenExpr:
			e = x.X
		default:
			return nil
		}
	}
}

func gen(t *tl.T) {
	m := &imp{repo: t.Repo, fset: t.Fset, std: importer.ForCompiler(t.Fset, "source", nil), cache: map[string]*pkgInfo{}, busy: map[string]bool{}}
	var sites []site
	seenPkg := 0
	for _, g := range groups {
		for _, rel := range g.pkgs {
			pi := m.load(rel)
			if pi == nil {
				if rel == "d2ir" || rel == "d2compiler" || rel == "d2renderers/d2svg" {
					t.Fail("package %s not found in the tree under test", rel)
				}
				continue
			}
			seenPkg++
			pkgVar := func(id *ast.Ident) *types.Var {
				if id == nil {
					return nil
				}
				v, ok := pi.info.Uses[id].(*types.Var)
				if !ok || v.Pkg() == nil || v.Parent() != v.Pkg().Scope() {
					return nil
				}
				return v
			}
			isPkgName := func(e ast.Expr) bool {
				id, ok := e.(*ast.Ident)
				if !ok {
					return false
				}
				_, isPkg := pi.info.Uses[id].(*types.PkgName)
				return isPkg
			}
			// the package-level variable (of this or another d2 package) an expression is rooted at:
			// a.b[c].d → a; pkg.V[i] → V
			var globalOf func(e ast.Expr) *types.Var
			globalOf = func(e ast.Expr) *types.Var {
				switch x := e.(type) {
				case *ast.Ident:
					return pkgVar(x)
				case *ast.SelectorExpr:
					if isPkgName(x.X) {
						return pkgVar(x.Sel)
					}
					return globalOf(x.X)
				case *ast.IndexExpr:
					return globalOf(x.X)
				case *ast.StarExpr:
					return globalOf(x.X)
				case *ast.ParenExpr:
					return globalOf(x.X)
				}
				return nil
			}
			refType := func(ty types.Type) bool {
				if ty == nil {
					return false
				}
				switch ty.Underlying().(type) {
				case *types.Slice, *types.Map, *types.Pointer:
					return true
				}
				return false
			}
			for i, f := range pi.files {
				file := pi.names[i]
				for _, d := range f.Decls {
					fd, ok := d.(*ast.FuncDecl)
					if !ok || fd.Body == nil {
						continue
					}
					fn := funcName(fd)
					isInit := fd.Name.Name == "init" && fd.Recv == nil
					add := func(kind string, e ast.Node) {
						sites = append(sites, site{g.name, kind, file, fn, t.Src(e), ""})
					}
					addBody := func(kind string, e ast.Node, body ast.Node) {
						sites = append(sites, site{g.name, kind, file, fn, t.Src(e), t.Src(body)})
					}
					// locals that alias a package-level variable of reference type (`x := G`, `x = pkg.G`)
					alias := map[types.Object]string{}
					ast.Inspect(fd.Body, func(n ast.Node) bool {
						as, ok := n.(*ast.AssignStmt)
						if !ok || len(as.Lhs) != len(as.Rhs) {
							return true
						}
						for k, r := range as.Rhs {
							var gv *types.Var
							switch rr := r.(type) {
							case *ast.Ident:
								gv = pkgVar(rr)
							case *ast.SelectorExpr:
								if isPkgName(rr.X) {
									gv = pkgVar(rr.Sel)
								}
							}
							if gv == nil || !refType(gv.Type()) {
								continue
							}
							if id, ok := as.Lhs[k].(*ast.Ident); ok && pkgVar(id) == nil {
								obj := pi.info.Defs[id]
								if obj == nil {
									obj = pi.info.Uses[id]
								}
								if obj != nil {
									alias[obj] = t.Src(as)
								}
							}
						}
						return true
					})
					writesThrough := func(l ast.Expr) string {
						switch l.(type) {
						case *ast.IndexExpr, *ast.SelectorExpr, *ast.StarExpr:
						default:
							return ""
						}
						id := rootIdent(l)
						if id == nil {
							return ""
						}
						return alias[pi.info.Uses[id]]
					}
					ast.Inspect(fd.Body, func(n ast.Node) bool {
						switch x := n.(type) {
						case *ast.GoStmt:
							add("goroutine", x.Call.Fun)
						case *ast.RangeStmt:
							tv, ok := pi.info.Types[x.X]
							if !ok || tv.Type == nil || tv.Type == types.Typ[types.Invalid] {
								addBody("range?", x.X, x.Body)
							} else if _, isMap := tv.Type.Underlying().(*types.Map); isMap {
								addBody("range", x.X, x.Body)
							}
						case *ast.AssignStmt:
							if isInit || x.Tok == token.DEFINE {
								return true
							}
							for _, l := range x.Lhs {
								if globalOf(l) != nil {
									add("globalwrite", l)
								} else if src := writesThrough(l); src != "" {
									sites = append(sites, site{g.name, "aliaswrite", file, fn, src, ""})
								}
							}
						case *ast.IncDecStmt:
							if isInit {
								return true
							}
							if globalOf(x.X) != nil {
								add("globalwrite", x.X)
							} else if src := writesThrough(x.X); src != "" {
								sites = append(sites, site{g.name, "aliaswrite", file, fn, src, ""})
							}
						case *ast.CallExpr:
							if isInit {
								return true
							}
							if id, ok := x.Fun.(*ast.Ident); ok && id.Name == "delete" && len(x.Args) > 0 && globalOf(x.Args[0]) != nil {
								add("globalwrite", x)
							}
							se, ok := x.Fun.(*ast.SelectorExpr)
							if !ok {
								return true
							}
							// mutating method on a package-level container (sync maps, registries, buffers)
							if mutators[se.Sel.Name] && globalOf(se.X) != nil {
								add("globalwrite", x.Fun)
							}
							// goroutine fan-out through sync.WaitGroup / errgroup.Group
							if se.Sel.Name == "Go" || se.Sel.Name == "Add" || se.Sel.Name == "Wait" {
								ts := ""
								if tv, ok := pi.info.Types[se.X]; ok && tv.Type != nil {
									ts = tv.Type.String()
								}
								if strings.Contains(ts, "sync.WaitGroup") || strings.Contains(ts, "errgroup.Group") {
									add("goroutine", x.Fun)
								} else if (ts == "" || ts == "invalid type") && se.Sel.Name == "Go" {
									// errgroup lives in an opaque third-party module: `<anything>.Go(func…)` of unknown type
									add("goroutine", x.Fun)
								}
							}
						}
						return true
					})
				}
			}
		}
	}
	if seenPkg < 10 {
		t.Fail("only %d packages type-checked", seenPkg)
	}
	// a site that occurs several times in one function (same text) is one site with a multiplicity
	type key struct{ group, kind, file, fn, expr, body string }
	count := map[key]int{}
	for _, s := range sites {
		count[key(s)]++
	}
	keys := make([]key, 0, len(count))
	for k := range count {
		keys = append(keys, k)
	}
	sort.Slice(keys, func(i, j int) bool {
		a, b := keys[i], keys[j]
		return fmt.Sprint(a.group, "|", a.file, "|", a.fn, "|", a.kind, "|", a.expr, "|", a.body) < fmt.Sprint(b.group, "|", b.file, "|", b.fn, "|", b.kind, "|", b.expr, "|", b.body)
	})
	t.P("namespace D2V.Gen.MapRanges\n\n")
	t.P("/-- `bh` is the FNV-1a hash of the whitespace-normalised loop body (0 for package-level writes): a changed body is a new site -/\n")
	t.P("structure Site where\n  group : String\n  kind : String\n  file : String\n  fn : String\n  expr : String\n  bh : Nat\n  count : Nat\nderiving Repr, BEq, DecidableEq\n\n")
	t.P("def mapRangeSites : List Site := [\n")
	for i, k := range keys {
		sep := ","
		if i == len(keys)-1 {
			sep = ""
		}
		body := k.body
		if len(body) > 110 {
			body = body[:110] + "…"
		}
		t.P("  -- %s\n", strings.ReplaceAll(body, "\n", " "))
		t.P("  ⟨%s, %s, %s, %s, %s, %d, %d⟩%s\n", tl.LeanString(k.group), tl.LeanString(k.kind), tl.LeanString(k.file), tl.LeanString(k.fn), tl.LeanString(k.expr), fnv(k.body), count[k], sep)
	}
	t.P("]\n\nend D2V.Gen.MapRanges\n")
	cnt := map[string]int{}
	for _, k := range keys {
		cnt[k.kind]++
	}
	t.Fact("MapRanges: %d map-range sites, %d unresolved-type range sites, %d package-level write sites, %d alias-write sites, %d goroutine sites in %d packages",
		cnt["range"], cnt["range?"], cnt["globalwrite"], cnt["aliaswrite"], cnt["goroutine"], seenPkg)
}

func fnv(s string) uint32 {
	if s == "" {
		return 0
	}
	h := uint32(2166136261)
	for i := 0; i < len(s); i++ {
		h ^= uint32(s[i])
		h *= 16777619
	}
	return h
}

func main() { tl.Main("MapRanges", gen) }
