// Tie R for C03/C04 (agent format): the keyword tables the formatter's two semantic rewrites depend on.
//   - d2ast.ReservedKeywords as computed by keywords.go's init() (union of the five literal maps)
//   - d2ast.BoardKeywords
//   - the case labels of MapNodeBox.IsBoardNode (the formatter's own notion of a board node)
//   - the literals of the board-type test inside d2format.printer._map
// Output: lean/D2V/Gen/FmtKw.lean (keywords as explicit `List Char` literals so `decide` can compute with them).
package main

import (
	"d2v/translator/tl"
	"go/ast"
	"go/token"
	"sort"
	"strings"
)

func chars(s string) string {
	var b strings.Builder
	b.WriteString("[")
	for i, r := range s {
		if i > 0 {
			b.WriteString(", ")
		}
		switch r {
		case '\'':
			b.WriteString(`'\''`)
		case '\\':
			b.WriteString(`'\\'`)
		default:
			b.WriteString("'" + string(r) + "'")
		}
	}
	b.WriteString("]")
	return b.String()
}

func charsList(xs []string) string {
	q := make([]string, len(xs))
	for i, x := range xs {
		q[i] = chars(x)
	}
	return "[" + strings.Join(q, ",\n   ") + "]"
}

func main() { tl.Main("FmtKw", gen) }

func gen(t *tl.T) {
	const kwFile = "d2ast/keywords.go"
	set := map[string]bool{}
	for _, name := range []string{"SimpleReservedKeywords", "ReservedKeywordHolders", "CompositeReservedKeywords", "StyleKeywords", "BoardKeywords"} {
		for _, k := range t.StringElems(t.Var(kwFile, name), nil) {
			set[k] = true
		}
	}
	// the init() must still build ReservedKeywords from exactly these maps
	initFn := t.Func(kwFile, "", "init")
	src := t.Src(initFn.Body)
	for _, name := range []string{"SimpleReservedKeywords", "StyleKeywords", "ReservedKeywordHolders", "BoardKeywords", "CompositeReservedKeywords"} {
		if !strings.Contains(src, "range "+name) {
			t.Fail("keywords.go init() no longer ranges over %s", name)
		}
	}
	var all []string
	for k := range set {
		all = append(all, k)
	}
	sort.Strings(all)
	boards := t.StringElems(t.Var(kwFile, "BoardKeywords"), nil)
	sort.Strings(boards)

	// IsBoardNode's switch labels
	fn := t.Func("d2ast/d2ast.go", "MapNodeBox", "IsBoardNode")
	var labels []string
	ast.Inspect(fn.Body, func(n ast.Node) bool {
		cc, ok := n.(*ast.CaseClause)
		if !ok {
			return true
		}
		for _, l := range cc.List {
			if s, ok := t.StringLit(l); ok {
				labels = append(labels, s)
			}
		}
		return true
	})
	if len(labels) == 0 {
		t.Fail("MapNodeBox.IsBoardNode has no string case labels")
	}
	sort.Strings(labels)

	// printer._map: the board-type comparison literals and the `Start.Line != 0` first-line rule
	mp := t.Func("d2format/format.go", "printer", "_map")
	var cmp []string
	line0Rule := false
	defers := false
	ast.Inspect(mp.Body, func(n ast.Node) bool {
		switch x := n.(type) {
		case *ast.BinaryExpr:
			if x.Op == token.EQL {
				if id, ok := x.X.(*ast.Ident); ok && id.Name == "boardType" {
					if s, ok := t.StringLit(x.Y); ok {
						cmp = append(cmp, s)
					}
				}
			}
			if x.Op == token.NEQ && strings.HasSuffix(t.Src(x.X), "Start.Line") && t.Src(x.Y) == "0" {
				line0Rule = true
			}
		case *ast.CallExpr:
			if strings.HasSuffix(t.Src(x.Fun), ".IsBoardNode") {
				defers = true
			}
		}
		return true
	})
	sort.Strings(cmp)

	// d2parser.parseArray: which parser position the deferred Range.End copy reads (p.pos = just after `]`;
	// p.readerPos = wherever the furthest read-ahead started, possibly on the next line)
	pa := t.Func("d2parser/parse.go", "parser", "parseArray")
	endField := ""
	ast.Inspect(pa.Body, func(n ast.Node) bool {
		d, ok := n.(*ast.DeferStmt)
		if !ok {
			return true
		}
		s := t.Src(d.Call)
		if strings.Contains(s, "Range.End.From(") {
			endField = strings.TrimSuffix(s[strings.Index(s, "From(")+5:], ")")
		}
		return true
	})
	if endField == "" {
		t.Fail("parseArray no longer sets Range.End in a defer")
	}

	// printer.interpolationBoxes: is the reserved-keyword lower-casing restricted to key position (`p.inKey`)?
	ib := t.Func("d2format/format.go", "printer", "interpolationBoxes")
	lowerOnlyInKey, lowers := false, false
	ast.Inspect(ib.Body, func(n ast.Node) bool {
		ifs, ok := n.(*ast.IfStmt)
		if !ok {
			return true
		}
		body := t.Src(ifs.Body)
		if strings.Contains(body, "ReservedKeywords[strings.ToLower(") {
			cond := t.Src(ifs.Cond)
			if strings.Contains(cond, "isDoubleString") {
				lowers = true
				lowerOnlyInKey = strings.Contains(cond, "p.inKey")
			}
		}
		return true
	})
	if !lowers {
		t.Fail("interpolationBoxes no longer lower-cases reserved keywords under an `!isDoubleString` test")
	}
	// d2ast.RawString: does the key branch quote strings that are reserved keywords only up to case?
	rs := t.Func("d2ast/d2ast.go", "", "RawString")
	rawQuotes := strings.Contains(t.Src(rs.Body), "ReservedKeywords[l]")

	t.P("namespace D2V.Gen.FmtKw\n\n")
	t.P("/-- d2ast.ReservedKeywords (union built by keywords.go init) -/\ndef reservedKeywords : List (List Char) :=\n  %s\n\n", charsList(all))
	t.P("/-- d2ast.BoardKeywords -/\ndef boardKeywords : List (List Char) :=\n  %s\n\n", charsList(boards))
	t.P("/-- case labels of d2ast.MapNodeBox.IsBoardNode -/\ndef isBoardNodeLabels : List (List Char) :=\n  %s\n\n", charsList(labels))
	t.P("/-- literals compared with boardType in d2format.printer._map -/\ndef mapBoardTypeLiterals : List (List Char) :=\n  %s\n\n", charsList(cmp))
	t.P("/-- printer._map calls IsBoardNode (board nodes are deferred to the end of their map) -/\ndef mapDefersBoards : Bool := %v\n\n", defers)
	t.P("/-- printer._map still has the `Start.Line != 0` rule for the blank line before a deferred board -/\ndef mapLine0Rule : Bool := %v\n\n", line0Rule)
	t.P("/-- d2parser.parseArray takes Range.End from the look-ahead position (`&p.readerPos`) instead of `&p.pos` -/\ndef arrayEndFromReaderPos : Bool := %v\n\n", endField != "&p.pos")
	t.P("/-- printer.interpolationBoxes lower-cases unquoted reserved keywords only in key position (`&& p.inKey`) -/\ndef lowerOnlyInKey : Bool := %v\n\n", lowerOnlyInKey)
	t.P("/-- d2ast.RawString (key mode) double-quotes a string that is a reserved keyword only up to letter case -/\ndef rawStringQuotesKeywordCase : Bool := %v\n\n", rawQuotes)
	t.P("end D2V.Gen.FmtKw\n")
	t.Fact("FmtKw: %d reserved keywords, board keywords %v, IsBoardNode labels %v, _map literals %v, defers=%v line0Rule=%v parseArray.End<-%s lowerOnlyInKey=%v rawStringQuotesKeywordCase=%v",
		len(all), boards, labels, cmp, defers, line0Rule, endField, lowerOnlyInKey, rawQuotes)
}
