module d2v/translator

go 1.23
