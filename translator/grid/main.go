// Tie R for C22: numeric constants of d2layouts/d2grid (CONTAINER_PADDING, DEFAULT_GAP), lib/label (PADDING) and
// d2target (MAX_ICON_SIZE) used by the grid model (slot margins and default gaps).
package main

import (
	"go/ast"
	"go/token"
	"strconv"

	"d2v/translator/tl"
)

func intConst(t *tl.T, rel, name string) int {
	e := t.Var(rel, name)
	bl, ok := e.(*ast.BasicLit)
	if !ok || bl.Kind != token.INT {
		t.Fail("%s in %s is not an integer literal: %s", name, rel, t.Src(e))
	}
	v, err := strconv.Atoi(bl.Value)
	if err != nil {
		t.Fail("%s: %v", name, err)
	}
	t.Fact("%s:%s = %d", rel, name, v)
	return v
}

func gen(t *tl.T) {
	t.P("namespace D2V.Gen.Grid\n\n")
	for _, c := range []struct{ rel, name, lean string }{
		{"d2layouts/d2grid/layout.go", "CONTAINER_PADDING", "containerPadding"},
		{"d2layouts/d2grid/layout.go", "DEFAULT_GAP", "defaultGap"},
		{"lib/label/label.go", "PADDING", "labelPadding"},
		{"d2target/d2target.go", "MAX_ICON_SIZE", "maxIconSize"},
	} {
		t.P("/-- `%s` of %s -/\ndef %s : Int := %d\n\n", c.name, c.rel, c.lean, intConst(t, c.rel, c.name))
	}
	t.P("end D2V.Gen.Grid\n")
}

func main() { tl.Main("Grid", gen) }
