// translator/quote — tie R of C05/C06: regenerates lean/D2V/Gen/Quote.lean from the quoting code of the
// repository under test.
//
//	d2ast/d2ast.go      UnquotedKeySpecials, UnquotedValueSpecials, the skeleton of RawString (operator and
//	                    operand of the `s[i+1]` dash test, the two quote-choice chains, the word lists of the
//	                    value-mode guard, the optional keyword-case guard of key mode)
//	d2ast/keywords.go   ReservedKeywords as computed by init()
//	d2format/escape.go  the three escape functions, symbolically executed per rune into Lean functions
//	d2format/format.go  the guard of the reserved-keyword lower-casing in printer.interpolationBoxes
//	d2parser/parse.go   decodeEscape, the stop sets of parseUnquotedString, the EqualFold ladder of parseValue
//
// Everything is found by structure (function names, statement kinds, callee names), never by line number.
package main

import (
	"d2v/translator/tl"
	"fmt"
	"go/ast"
	"go/token"
	"sort"
	"strconv"
	"strings"
)

func main() { tl.Main("Quote", gen) }

// ------------------------------------------------------------------------------------------------ helpers

func leanChar(r rune) string {
	switch r {
	case '\n':
		return `'\n'`
	case '\t':
		return `'\t'`
	case '\r':
		return `'\r'`
	case '\'':
		return `'\''`
	case '\\':
		return `'\\'`
	}
	if r >= 0x20 && r < 0x7f {
		return "'" + string(r) + "'"
	}
	return fmt.Sprintf("(Char.ofNat %d)", r)
}

func leanCharList(rs []rune) string {
	q := make([]string, len(rs))
	for i, r := range rs {
		q[i] = leanChar(r)
	}
	return "[" + strings.Join(q, ", ") + "]"
}

func leanStr(s string) string { return leanCharList([]rune(s)) }

func leanStrList(xs []string) string {
	q := make([]string, len(xs))
	for i, x := range xs {
		q[i] = leanStr(x)
	}
	return "[" + strings.Join(q, ",\n   ") + "]"
}

func charLit(t *tl.T, e ast.Expr) (rune, bool) {
	bl, ok := e.(*ast.BasicLit)
	if !ok || bl.Kind != token.CHAR {
		return 0, false
	}
	s, err := strconv.Unquote(bl.Value)
	if err != nil {
		return 0, false
	}
	rs := []rune(s)
	if len(rs) != 1 {
		return 0, false
	}
	return rs[0], true
}

func nospace(s string) string { return strings.Join(strings.Fields(s), "") }

func unparen(e ast.Expr) ast.Expr {
	for {
		p, ok := e.(*ast.ParenExpr)
		if !ok {
			return e
		}
		e = p.X
	}
}

// callee returns "pkg.Name" / "Name" and the arguments of a call expression.
func callee(e ast.Expr) (string, []ast.Expr, bool) {
	c, ok := unparen(e).(*ast.CallExpr)
	if !ok {
		return "", nil, false
	}
	switch f := c.Fun.(type) {
	case *ast.Ident:
		return f.Name, c.Args, true
	case *ast.SelectorExpr:
		if x, ok := f.X.(*ast.Ident); ok {
			return x.Name + "." + f.Sel.Name, c.Args, true
		}
		// p.sb.WriteByte
		if x, ok := f.X.(*ast.SelectorExpr); ok {
			if y, ok := x.X.(*ast.Ident); ok {
				return y.Name + "." + x.Sel.Name + "." + f.Sel.Name, c.Args, true
			}
		}
	}
	return "", nil, false
}

func isIdent(e ast.Expr, name string) bool {
	id, ok := unparen(e).(*ast.Ident)
	return ok && id.Name == name
}

// specialsName maps the Go identifier of a specials set to the generated Lean name.
func specialsName(e ast.Expr) (string, bool) {
	switch x := unparen(e).(type) {
	case *ast.Ident:
		switch x.Name {
		case "UnquotedKeySpecials":
			return "keySpecials", true
		case "UnquotedValueSpecials":
			return "valueSpecials", true
		}
	case *ast.SelectorExpr:
		return specialsName(x.Sel)
	}
	return "", false
}

// cond translates a Go boolean expression over the variables of the quoting code into a Lean Bool term.
// Variables: s (the whole string), r (current rune), i (its byte offset; only `i == 0`, `i+1 < len(s)`,
// `s[i+1] op c`), inKey / p.inKey, isDoubleString.
func cond(t *tl.T, e ast.Expr) string {
	e = unparen(e)
	switch x := e.(type) {
	case *ast.Ident:
		switch x.Name {
		case "inKey", "isDoubleString", "ok":
			return x.Name
		case "true", "false":
			return x.Name
		}
	case *ast.SelectorExpr:
		if isIdent(x.X, "p") && x.Sel.Name == "inKey" {
			return "inKey"
		}
	case *ast.UnaryExpr:
		if x.Op == token.NOT {
			return "(!" + cond(t, x.X) + ")"
		}
	case *ast.BinaryExpr:
		switch x.Op {
		case token.LAND:
			return "(" + cond(t, x.X) + " && " + cond(t, x.Y) + ")"
		case token.LOR:
			return "(" + cond(t, x.X) + " || " + cond(t, x.Y) + ")"
		case token.EQL, token.NEQ:
			op := " == "
			if x.Op == token.NEQ {
				op = " != "
			}
			// r == 'c'
			if isIdent(x.X, "r") {
				if c, ok := charLit(t, x.Y); ok {
					return "(r" + op + leanChar(c) + ")"
				}
			}
			// i == 0
			if isIdent(x.X, "i") {
				if bl, ok := x.Y.(*ast.BasicLit); ok && bl.Value == "0" {
					if x.Op == token.EQL {
						return "first"
					}
					return "(!first)"
				}
			}
			// s[i+1] op 'c'
			if ix, ok := unparen(x.X).(*ast.IndexExpr); ok && isIdent(ix.X, "s") && nospace(t.Src(ix.Index)) == "i+1" {
				if c, ok := charLit(t, x.Y); ok && c < 0x80 {
					return fmt.Sprintf("(next%ssome %d)", op, c)
				}
			}
			// s == "lit"
			if isIdent(x.X, "s") {
				if lit, ok := t.StringLit(x.Y); ok {
					return "(s" + op + leanStr(lit) + ")"
				}
			}
			// l != s (after l := strings.ToLower(s))
			if isIdent(x.X, "l") && isIdent(x.Y, "s") {
				return "(lowerStr s" + op + "s)"
			}
		case token.LSS:
			if nospace(t.Src(x)) == "i+1<len(s)" {
				return "next.isSome"
			}
		}
	case *ast.CallExpr:
		name, args, _ := callee(x)
		switch name {
		case "strings.ContainsRune":
			if len(args) == 2 {
				if set, ok := specialsName(args[0]); ok && isIdent(args[1], "r") {
					return "(" + set + ".contains r)"
				}
				if isIdent(args[0], "s") {
					if c, ok := charLit(t, args[1]); ok {
						return "(s.contains " + leanChar(c) + ")"
					}
				}
			}
		case "strings.ContainsAny":
			if len(args) == 2 && isIdent(args[0], "s") {
				if set, ok := specialsName(args[1]); ok {
					return "(containsAny s " + set + ")"
				}
			}
		case "strings.EqualFold":
			if len(args) == 2 && isIdent(args[0], "s") {
				if lit, ok := t.StringLit(args[1]); ok {
					return "(equalFold s " + tl.LeanString(lit) + ")"
				}
			}
		case "hasSurroundingWhitespace":
			if len(args) == 1 && isIdent(args[0], "s") {
				return "(surroundingWs s)"
			}
		}
	}
	t.Fail("condition not understood: %s", t.Src(e))
	return ""
}

// ------------------------------------------------------------------------- symbolic execution of loop bodies

// exec turns the statements of one iteration of `for i, r := range s { … }` into a Lean term.
// A leaf is produced by `continue`, `return X`, or by falling off the end of the body.
type leafFn func(written []string, how string, ret ast.Expr) string

func execStmts(t *tl.T, stmts []ast.Stmt, written []string, leaf leafFn, ind string) string {
	if len(stmts) == 0 {
		return leaf(written, "end", nil)
	}
	st, rest := stmts[0], stmts[1:]
	switch x := st.(type) {
	case *ast.ExprStmt:
		name, args, ok := callee(x.X)
		if ok && strings.HasSuffix(name, ".WriteByte") && len(args) == 1 {
			if c, ok := charLit(t, args[0]); ok {
				return execStmts(t, rest, append(append([]string{}, written...), leanChar(c)), leaf, ind)
			}
		}
		if ok && strings.HasSuffix(name, ".WriteRune") && len(args) == 1 && isIdent(args[0], "r") {
			return execStmts(t, rest, append(append([]string{}, written...), "r"), leaf, ind)
		}
	case *ast.BranchStmt:
		if x.Tok == token.CONTINUE && x.Label == nil {
			return leaf(written, "continue", nil)
		}
	case *ast.ReturnStmt:
		if len(x.Results) == 1 {
			return leaf(written, "return", x.Results[0])
		}
	case *ast.BlockStmt:
		return execStmts(t, append(append([]ast.Stmt{}, x.List...), rest...), written, leaf, ind)
	case *ast.IfStmt:
		if x.Init != nil {
			break
		}
		c := cond(t, x.Cond)
		thenS := append(append([]ast.Stmt{}, x.Body.List...), rest...)
		var elseS []ast.Stmt
		if x.Else != nil {
			elseS = append([]ast.Stmt{x.Else}, rest...)
		} else {
			elseS = rest
		}
		return "if " + c + " then\n" + ind + "  " + execStmts(t, thenS, written, leaf, ind+"  ") +
			"\n" + ind + "else\n" + ind + "  " + execStmts(t, elseS, written, leaf, ind+"  ")
	case *ast.SwitchStmt:
		if x.Init != nil || !isIdent(x.Tag, "r") {
			break
		}
		var def []ast.Stmt
		type cl struct {
			cond string
			body []ast.Stmt
		}
		var cls []cl
		for _, s := range x.Body.List {
			cc := s.(*ast.CaseClause)
			for _, b := range cc.Body {
				if bs, ok := b.(*ast.BranchStmt); ok && (bs.Tok == token.FALLTHROUGH || bs.Tok == token.BREAK) {
					t.Fail("fallthrough/break in a rune switch is not supported: %s", t.Src(x))
				}
			}
			if cc.List == nil {
				def = cc.Body
				continue
			}
			var alts []string
			for _, l := range cc.List {
				c, ok := charLit(t, l)
				if !ok {
					t.Fail("case label is not a rune literal: %s", t.Src(l))
				}
				alts = append(alts, "r == "+leanChar(c))
			}
			cls = append(cls, cl{"(" + strings.Join(alts, " || ") + ")", cc.Body})
		}
		out := ""
		cur := ind
		for _, c := range cls {
			out += "if " + c.cond + " then\n" + cur + "  " +
				execStmts(t, append(append([]ast.Stmt{}, c.body...), rest...), written, leaf, cur+"  ") +
				"\n" + cur + "else\n" + cur + "  "
			cur += "  "
		}
		out += execStmts(t, append(append([]ast.Stmt{}, def...), rest...), written, leaf, cur)
		return out
	}
	t.Fail("statement not understood: %s", t.Src(st))
	return ""
}

func rangeLoop(t *tl.T, fd *ast.FuncDecl) *ast.RangeStmt {
	var found *ast.RangeStmt
	ast.Inspect(fd.Body, func(n ast.Node) bool {
		if rs, ok := n.(*ast.RangeStmt); ok && found == nil && isIdent(rs.X, "s") {
			found = rs
			return false
		}
		return true
	})
	if found == nil {
		t.Fail("%s: no `for … range s` loop", fd.Name.Name)
	}
	if v, ok := found.Value.(*ast.Ident); !ok || v.Name != "r" {
		t.Fail("%s: range value is not named r", fd.Name.Name)
	}
	if k, ok := found.Key.(*ast.Ident); !ok || (k.Name != "i" && k.Name != "_") {
		t.Fail("%s: range key is not i or _", fd.Name.Name)
	}
	return found
}

func escLeaf(t *tl.T) leafFn {
	return func(written []string, how string, ret ast.Expr) string {
		if how == "return" {
			t.Fail("return inside an escape loop")
		}
		return "[" + strings.Join(written, ", ") + "]"
	}
}

// quotingOf maps the returned constructor expression of RawString to a Lean Quoting.
func quotingOf(t *tl.T, e ast.Expr) string {
	src := t.Src(e)
	switch src {
	case "FlatDoubleQuotedString(s)":
		return ".dq"
	case "FlatUnquotedString(s)":
		return ".unq"
	case "&SingleQuotedString{Value: s}":
		return ".sq"
	}
	t.Fail("RawString returns something unexpected: %s", src)
	return ""
}

// chain translates `if c1 {return A}; if c2 {return B}; return C` into a Lean if-chain of Quoting.
func chain(t *tl.T, stmts []ast.Stmt) string {
	return execStmts(t, stmts, nil, func(w []string, how string, ret ast.Expr) string {
		if how != "return" {
			t.Fail("quote-choice chain does not end in a return")
		}
		return quotingOf(t, ret)
	}, "  ")
}

// flattenOr returns the disjuncts of a || b || c.
func flattenOr(e ast.Expr) []ast.Expr {
	e = unparen(e)
	if b, ok := e.(*ast.BinaryExpr); ok && b.Op == token.LOR {
		return append(flattenOr(b.X), flattenOr(b.Y)...)
	}
	return []ast.Expr{e}
}

// ------------------------------------------------------------------------------------------------ generator

func gen(t *tl.T) {
	t.P("import D2V.Model.QuoteBase\n")
	t.P("/-! Tables and guards of the quoting code, regenerated from the repository under test. -/\n")
	t.P("set_option linter.unusedVariables false\nnamespace D2V.Gen.Quote\nopen D2V.Quote\n\n")

	// ---- specials sets
	for _, v := range [][2]string{{"UnquotedKeySpecials", "keySpecials"}, {"UnquotedValueSpecials", "valueSpecials"}} {
		e := t.Var("d2ast/d2ast.go", v[0])
		name, args, ok := callee(e)
		if !ok || name != "string" || len(args) != 1 {
			t.Fail("%s is not string([]rune{…})", v[0])
		}
		cl, ok := args[0].(*ast.CompositeLit)
		if !ok {
			t.Fail("%s is not string([]rune{…})", v[0])
		}
		var rs []rune
		for _, el := range cl.Elts {
			c, ok := charLit(t, el)
			if !ok {
				t.Fail("%s: element %s is not a rune literal", v[0], t.Src(el))
			}
			rs = append(rs, c)
		}
		t.P("/-- d2ast.%s -/\ndef %s : List Char := %s\n\n", v[0], v[1], leanCharList(rs))
		t.Fact("d2ast.%s = %q", v[0], string(rs))
	}

	// ---- ReservedKeywords as init() builds it
	kwFile := "d2ast/keywords.go"
	sets := map[string]map[string]bool{}
	getSet := func(name string) map[string]bool {
		if s, ok := sets[name]; ok {
			return s
		}
		s := map[string]bool{}
		e := t.Var(kwFile, name)
		if _, ok := e.(*ast.CompositeLit); ok {
			for _, k := range t.StringElems(e, nil) {
				s[k] = true
			}
		}
		sets[name] = s
		return s
	}
	sets["ReservedKeywords"] = map[string]bool{}
	initFn := t.Func(kwFile, "", "init")
	for _, st := range initFn.Body.List {
		rs, ok := st.(*ast.RangeStmt)
		if !ok {
			continue
		}
		src, ok := rs.X.(*ast.Ident)
		if !ok || len(rs.Body.List) != 1 {
			continue
		}
		as, ok := rs.Body.List[0].(*ast.AssignStmt)
		if !ok || len(as.Lhs) != 1 {
			continue
		}
		ix, ok := as.Lhs[0].(*ast.IndexExpr)
		if !ok {
			continue
		}
		dst, ok := ix.X.(*ast.Ident)
		if !ok || !isIdent(ix.Index, "k") {
			continue
		}
		if dst.Name != "ReservedKeywords" && dst.Name != "CompositeReservedKeywords" {
			continue
		}
		d := getSet(dst.Name)
		for k := range getSet(src.Name) {
			d[k] = true
		}
	}
	var kws []string
	for k := range sets["ReservedKeywords"] {
		kws = append(kws, k)
	}
	sort.Strings(kws)
	if len(kws) < 20 {
		t.Fail("ReservedKeywords: init() yields only %d keywords", len(kws))
	}
	for _, k := range kws {
		for _, r := range k {
			if r >= 0x80 {
				t.Fail("reserved keyword %q is not ASCII (the ToLower model assumes ASCII keywords)", k)
			}
		}
	}
	t.P("/-- d2ast.ReservedKeywords after init() (%d entries) -/\ndef reservedKeywords : List (List Char) :=\n  %s\n\n", len(kws), leanStrList(kws))
	t.Fact("d2ast.ReservedKeywords has %d entries", len(kws))

	genRawString(t)
	genEscapes(t)
	genPrinter(t)
	genParser(t)
	t.P("end D2V.Gen.Quote\n")
}

func genRawString(t *tl.T) {
	fd := t.Func("d2ast/d2ast.go", "", "RawString")
	body := fd.Body.List
	// skeleton: if s == "" {return DQ}; if inKey {loop; [kwcase]} else if COND {chain}; if hasSurroundingWhitespace(s) {return DQ}; return UNQ
	if len(body) != 4 {
		t.Fail("RawString: expected 4 top-level statements, found %d", len(body))
	}
	if0, ok := body[0].(*ast.IfStmt)
	if !ok || t.Src(if0.Cond) != `s == ""` || if0.Else != nil {
		t.Fail("RawString: first statement is not `if s == \"\"`")
	}
	t.P("/-- RawString: the result for the empty string -/\ndef rawEmpty : Quoting :=\n  %s\n\n", chain(t, if0.Body.List))

	ifKey, ok := body[1].(*ast.IfStmt)
	if !ok || !isIdent(ifKey.Cond, "inKey") || ifKey.Init != nil {
		t.Fail("RawString: second statement is not `if inKey`")
	}
	kb := ifKey.Body.List
	if len(kb) < 1 || len(kb) > 2 {
		t.Fail("RawString: key branch has %d statements (expected the loop and at most one guard)", len(kb))
	}
	loop, ok := kb[0].(*ast.RangeStmt)
	if !ok || !isIdent(loop.X, "s") || !isIdent(loop.Key, "i") || !isIdent(loop.Value, "r") {
		t.Fail("RawString: key branch does not start with `for i, r := range s`")
	}
	step := execStmts(t, loop.Body.List, nil, func(w []string, how string, ret ast.Expr) string {
		if how == "return" {
			return "some " + quotingOf(t, ret)
		}
		return "none"
	}, "  ")
	t.P("/-- RawString, key mode: one iteration of `for i, r := range s` (`next` = the byte `s[i+1]`, if any);\n    `none` = go on with the next rune -/\n")
	t.P("def rawKeyStep (s : List Char) (r : Char) (next : Option Nat) : Option Quoting :=\n  %s\n\n", step)
	t.Fact("RawString key loop: %s", t.Src(loop.Body))
	kwCase := false
	if len(kb) == 2 {
		g, ok := kb[1].(*ast.IfStmt)
		src := ""
		if ok {
			src = t.Src(g)
		}
		norm := strings.Join(strings.Fields(stripComments(src)), " ")
		want := "if l := strings.ToLower(s); l != s { if _, ok := ReservedKeywords[l]; ok { return FlatDoubleQuotedString(s) } }"
		if norm != want {
			t.Fail("RawString: unexpected statement after the key loop: %s", norm)
		}
		kwCase = true
	}
	t.P("/-- RawString, key mode: after the loop, a string that matches a reserved keyword only\n    case-insensitively is double-quoted (`l := strings.ToLower(s); l != s && ReservedKeywords[l]`) -/\n")
	t.P("def rawKeyQuotesKeywordCase : Bool := %v\n\n", kwCase)
	t.Fact("RawString key mode quotes case variants of reserved keywords: %v", kwCase)

	ifVal, ok := ifKey.Else.(*ast.IfStmt)
	if !ok || ifVal.Else != nil || ifVal.Init != nil {
		t.Fail("RawString: `else if <value guard>` not found")
	}
	var exact, fold, foldNe []string
	specials := false
	for _, d := range flattenOr(ifVal.Cond) {
		d = unparen(d)
		if b, ok := d.(*ast.BinaryExpr); ok && b.Op == token.EQL && isIdent(b.X, "s") {
			if lit, ok := t.StringLit(b.Y); ok {
				exact = append(exact, lit)
				continue
			}
		}
		if name, args, ok := callee(d); ok && name == "strings.EqualFold" && len(args) == 2 && isIdent(args[0], "s") {
			if lit, ok := t.StringLit(args[1]); ok {
				fold = append(fold, lit)
				continue
			}
		}
		if name, args, ok := callee(d); ok && name == "strings.ContainsAny" && len(args) == 2 && isIdent(args[0], "s") {
			if set, ok := specialsName(args[1]); ok && set == "valueSpecials" {
				specials = true
				continue
			}
		}
		if b, ok := d.(*ast.BinaryExpr); ok && b.Op == token.LAND {
			x, y := unparen(b.X), unparen(b.Y)
			if _, isCall := x.(*ast.CallExpr); isCall {
				x, y = y, x
			}
			ne, ok1 := x.(*ast.BinaryExpr)
			name, args, ok2 := callee(y)
			if ok1 && ok2 && ne.Op == token.NEQ && isIdent(ne.X, "s") && name == "strings.EqualFold" && len(args) == 2 && isIdent(args[0], "s") {
				l1, o1 := t.StringLit(ne.Y)
				l2, o2 := t.StringLit(args[1])
				if o1 && o2 && l1 == l2 {
					foldNe = append(foldNe, l1)
					continue
				}
			}
		}
		t.Fail("RawString: value guard disjunct not understood: %s", t.Src(d))
	}
	for _, w := range append(append(append([]string{}, exact...), fold...), foldNe...) {
		for _, r := range w {
			if r >= 0x80 || (r >= 'A' && r <= 'Z') {
				t.Fail("RawString: guard word %q is not lower-case ASCII", w)
			}
		}
	}
	t.P("/-- RawString, value mode guard: words compared with `s == w` -/\ndef rawValueExactWords : List (List Char) := %s\n", leanStrList(exact))
	t.P("/-- … with `strings.EqualFold(s, w)` -/\ndef rawValueFoldWords : List String := %s\n", tl.LeanStringList(fold))
	t.P("/-- … with `s != w && strings.EqualFold(s, w)` -/\ndef rawValueFoldNeWords : List String := %s\n", tl.LeanStringList(foldNe))
	t.P("/-- … and `strings.ContainsAny(s, UnquotedValueSpecials)` is a disjunct -/\ndef rawValueChecksSpecials : Bool := %v\n\n", specials)
	t.Fact("RawString value guard: exact=%v fold=%v foldNe=%v specials=%v", exact, fold, foldNe, specials)
	t.P("/-- RawString, value mode: quote choice once the guard holds -/\ndef rawValueQuoted (s : List Char) : Quoting :=\n  %s\n\n", chain(t, ifVal.Body.List))

	t.P("/-- RawString: the tail common to both modes -/\ndef rawTail (s : List Char) : Quoting :=\n  %s\n\n", chain(t, body[2:]))

	// hasSurroundingWhitespace: first and last rune through unicode.IsSpace
	hs := t.Func("d2ast/d2ast.go", "", "hasSurroundingWhitespace")
	src := strings.Join(strings.Fields(t.Src(hs.Body)), " ")
	want := "{ r, _ := utf8.DecodeRuneInString(s) r2, _ := utf8.DecodeLastRuneInString(s) return unicode.IsSpace(r) || unicode.IsSpace(r2) }"
	if src != want {
		t.Fail("hasSurroundingWhitespace changed: %s", src)
	}
}

func stripComments(s string) string {
	var out []string
	for _, l := range strings.Split(s, "\n") {
		if i := strings.Index(l, "//"); i >= 0 {
			l = l[:i]
		}
		out = append(out, l)
	}
	return strings.Join(out, "\n")
}

func genEscapes(t *tl.T) {
	file := "d2format/escape.go"
	// single quoted
	{
		fd := t.Func(file, "", "escapeSingleQuotedValue")
		loop := rangeLoop(t, fd)
		t.P("/-- escapeSingleQuotedValue: what one iteration writes for rune `r` -/\ndef sqEsc (r : Char) : List Char :=\n  %s\n\n",
			execStmts(t, loop.Body.List, nil, escLeaf(t), "  "))
		t.Fact("escapeSingleQuotedValue loop: %s", t.Src(loop.Body))
	}
	{
		fd := t.Func(file, "", "escapeDoubledQuotedValue")
		loop := rangeLoop(t, fd)
		t.P("/-- escapeDoubledQuotedValue: what one iteration writes for rune `r` -/\ndef dqEsc (inKey : Bool) (r : Char) : List Char :=\n  %s\n\n",
			execStmts(t, loop.Body.List, nil, escLeaf(t), "  "))
		t.Fact("escapeDoubledQuotedValue loop: %s", t.Src(loop.Body))
	}
	{
		fd := t.Func(file, "", "escapeUnquotedValue")
		loop := rangeLoop(t, fd)
		t.P("/-- escapeUnquotedValue: what one iteration writes for rune `r` (`first` = `i == 0`, `next` = byte `s[i+1]`) -/\n")
		t.P("def uqEsc (inKey : Bool) (first : Bool) (next : Option Nat) (r : Char) : List Char :=\n  %s\n\n",
			execStmts(t, loop.Body.List, nil, escLeaf(t), "  "))
		t.Fact("escapeUnquotedValue loop: %s", t.Src(loop.Body))
		// the two early returns before the loop
		var pre []ast.Stmt
		for _, st := range fd.Body.List {
			if _, ok := st.(*ast.IfStmt); ok {
				pre = append(pre, st)
				continue
			}
			break
		}
		if len(pre) != 2 {
			t.Fail("escapeUnquotedValue: expected two early returns before the loop, found %d", len(pre))
		}
		i0 := pre[0].(*ast.IfStmt)
		if t.Src(i0.Cond) != "len(s) == 0" {
			t.Fail("escapeUnquotedValue: first early return is not on len(s) == 0")
		}
		t.P("/-- escapeUnquotedValue on the empty string -/\ndef uqEmpty : List Char := %s\n\n", strExpr(t, retExpr(t, i0)))
		i1 := pre[1].(*ast.IfStmt)
		name, args, ok := callee(i1.Cond)
		w := ""
		if ok && name == "strings.EqualFold" && len(args) == 2 && isIdent(args[0], "s") {
			w, ok = t.StringLit(args[1])
		}
		if !ok || w == "" {
			t.Fail("escapeUnquotedValue: second early return is not on strings.EqualFold(s, <word>)")
		}
		t.P("/-- escapeUnquotedValue: the word matched with EqualFold before the loop, and what is returned for it:\n    a fixed literal (`some lit`), or `\"'\" + s + \"'\"` (`none`: the string itself between single quotes) -/\n")
		t.P("def uqFoldWord : String := %s\n", tl.LeanString(w))
		re := retExpr(t, i1)
		if lit, ok := t.StringLit(re); ok {
			t.P("def uqFoldLiteral : Option (List Char) := some %s\n\n", leanStr(lit))
		} else if nospace(t.Src(re)) == `"'"+s+"'"` {
			t.P("def uqFoldLiteral : Option (List Char) := none\n\n")
		} else {
			t.Fail("escapeUnquotedValue: EqualFold branch returns %s", t.Src(re))
		}
		t.Fact("escapeUnquotedValue: EqualFold(s,%q) returns %s", w, t.Src(retExpr(t, i1)))
	}
}

func retExpr(t *tl.T, i *ast.IfStmt) ast.Expr {
	if len(i.Body.List) == 1 {
		if r, ok := i.Body.List[0].(*ast.ReturnStmt); ok && len(r.Results) == 1 {
			return r.Results[0]
		}
	}
	t.Fail("expected a single return in %s", t.Src(i))
	return nil
}

// strExpr translates a string expression made of literals, s and + into a Lean List Char term.
func strExpr(t *tl.T, e ast.Expr) string {
	e = unparen(e)
	if lit, ok := t.StringLit(e); ok {
		return leanStr(lit)
	}
	if isIdent(e, "s") {
		return "s"
	}
	if b, ok := e.(*ast.BinaryExpr); ok && b.Op == token.ADD {
		return "(" + strExpr(t, b.X) + " ++ " + strExpr(t, b.Y) + ")"
	}
	t.Fail("string expression not understood: %s", t.Src(e))
	return ""
}

func genPrinter(t *tl.T) {
	fd := t.Func("d2format/format.go", "printer", "interpolationBoxes")
	// the if statement whose body looks ReservedKeywords up under strings.ToLower(*b.StringRaw)
	var guard *ast.IfStmt
	ast.Inspect(fd.Body, func(n ast.Node) bool {
		is, ok := n.(*ast.IfStmt)
		if !ok || guard != nil {
			return true
		}
		if len(is.Body.List) == 1 {
			if inner, ok := is.Body.List[0].(*ast.IfStmt); ok && inner.Init != nil &&
				strings.Contains(t.Src(inner.Init), "ReservedKeywords[strings.ToLower(*b.StringRaw)]") {
				guard = is
				want := "{ s := strings.ToLower(*b.StringRaw) b.StringRaw = &s }"
				if got := strings.Join(strings.Fields(t.Src(inner.Body)), " "); got != want {
					t.Fail("interpolationBoxes: the keyword branch no longer writes strings.ToLower(raw): %s", got)
				}
				return false
			}
		}
		return true
	})
	if guard == nil {
		t.Fail("interpolationBoxes: reserved-keyword lower-casing not found")
	}
	t.P("/-- printer.interpolationBoxes: guard under which a raw string that lower-cases to a reserved keyword\n    is written in lower case -/\n")
	t.P("def lowerGuard (isDoubleString inKey : Bool) : Bool := %s\n\n", cond(t, guard.Cond))
	t.Fact("interpolationBoxes lower-casing guard: %s", t.Src(guard.Cond))

	// quote bytes written by printer.node for the two quoted kinds
	node := t.Func("d2format/format.go", "printer", "node")
	src := strings.Join(strings.Fields(t.Src(node.Body)), " ")
	for _, want := range []string{
		`case *d2ast.UnquotedString: p.interpolationBoxes(n.Value, false)`,
		`case *d2ast.DoubleQuotedString: p.sb.WriteByte('"') p.interpolationBoxes(n.Value, true) p.sb.WriteByte('"')`,
		`p.sb.WriteString(escapeSingleQuotedValue(n.Value)) p.sb.WriteByte('\'')`,
	} {
		if !strings.Contains(src, want) {
			t.Fail("printer.node: pattern gone: %s", want)
		}
	}
}

func genParser(t *tl.T) {
	file := "d2parser/parse.go"
	// decodeEscape
	de := t.Func(file, "", "decodeEscape")
	if len(de.Body.List) != 1 {
		t.Fail("decodeEscape: expected a single switch")
	}
	sw, ok := de.Body.List[0].(*ast.SwitchStmt)
	if !ok || !isIdent(sw.Tag, "r2") {
		t.Fail("decodeEscape: expected `switch r2`")
	}
	out := ""
	def := ""
	for _, s := range sw.Body.List {
		cc := s.(*ast.CaseClause)
		if len(cc.Body) != 1 {
			t.Fail("decodeEscape: clause with %d statements", len(cc.Body))
		}
		r, ok := cc.Body[0].(*ast.ReturnStmt)
		if !ok || len(r.Results) != 1 {
			t.Fail("decodeEscape: clause does not return")
		}
		var res string
		if isIdent(r.Results[0], "r2") {
			res = "r2"
		} else if c, ok := charLit(t, r.Results[0]); ok {
			res = leanChar(c)
		} else {
			t.Fail("decodeEscape: result %s", t.Src(r.Results[0]))
		}
		if cc.List == nil {
			def = res
			continue
		}
		for _, l := range cc.List {
			c, ok := charLit(t, l)
			if !ok {
				t.Fail("decodeEscape: label %s", t.Src(l))
			}
			out += fmt.Sprintf("if r2 == %s then %s else ", leanChar(c), res)
		}
	}
	if def == "" {
		t.Fail("decodeEscape: no default")
	}
	t.P("/-- d2parser.decodeEscape -/\ndef decodeEscape (r2 : Char) : Char :=\n  %s%s\n\n", out, def)

	// stop sets of parseUnquotedString: rune switches whose clause body is `p.rewind(); return s`
	pu := t.Func(file, "parser", "parseUnquotedString")
	var stops [][]rune
	ast.Inspect(pu.Body, func(n ast.Node) bool {
		sw, ok := n.(*ast.SwitchStmt)
		if !ok || !isIdent(sw.Tag, "r") {
			return true
		}
		for _, s := range sw.Body.List {
			cc := s.(*ast.CaseClause)
			if strings.Join(strings.Fields(t.Src(&ast.BlockStmt{List: cc.Body})), " ") == "{ p.rewind() return s }" {
				var rs []rune
				for _, l := range cc.List {
					c, ok := charLit(t, l)
					if !ok {
						t.Fail("parseUnquotedString: label %s", t.Src(l))
					}
					rs = append(rs, c)
				}
				stops = append(stops, rs)
			}
		}
		return true
	})
	if len(stops) != 2 {
		t.Fail("parseUnquotedString: expected two `p.rewind(); return s` rune clauses (top level, key), found %d", len(stops))
	}
	t.P("/-- parseUnquotedString: runes that end an unquoted string in both modes / additionally in a key -/\n")
	t.P("def uqStopTop : List Char := %s\ndef uqStopKey : List Char := %s\n\n", leanCharList(stops[0]), leanCharList(stops[1]))
	t.Fact("parseUnquotedString stops: top=%q key=%q", string(stops[0]), string(stops[1]))

	// parseValue: the EqualFold ladder
	pv := t.Func(file, "parser", "parseValue")
	type fk struct{ word, kind string }
	var ladder []fk
	for _, st := range pv.Body.List {
		is, ok := st.(*ast.IfStmt)
		if !ok {
			continue
		}
		name, args, ok := callee(is.Cond)
		if !ok || name != "strings.EqualFold" || len(args) != 2 || t.Src(args[0]) != "s.ScalarString()" {
			continue
		}
		w, ok := t.StringLit(args[1])
		if !ok {
			t.Fail("parseValue: EqualFold against a non-literal")
		}
		body := t.Src(is.Body)
		kind := ""
		switch {
		case strings.Contains(body, "box.Null"):
			kind = ".null"
		case strings.Contains(body, "box.Suspension") && strings.Contains(body, "Value: true"):
			kind = ".suspension true"
		case strings.Contains(body, "box.Suspension") && strings.Contains(body, "Value: false"):
			kind = ".suspension false"
		case strings.Contains(body, "box.Boolean") && strings.Contains(body, "Value: true"):
			kind = ".boolean true"
		case strings.Contains(body, "box.Boolean") && strings.Contains(body, "Value: false"):
			kind = ".boolean false"
		default:
			t.Fail("parseValue: EqualFold(%q) branch not understood", w)
		}
		ladder = append(ladder, fk{w, kind})
	}
	if len(ladder) == 0 {
		t.Fail("parseValue: EqualFold ladder not found")
	}
	t.P("/-- scalar kinds an unquoted value can fold into -/\ninductive FoldKind where\n  | null | suspension (v : Bool) | boolean (v : Bool)\n  deriving DecidableEq, Repr\n\n")
	t.P("/-- parseValue: `strings.EqualFold(s.ScalarString(), w)` tests in order, with the node each produces -/\ndef valueFoldLadder : List (String × FoldKind) :=\n  [")
	for i, f := range ladder {
		if i > 0 {
			t.P(", ")
		}
		t.P("(%s, %s)", tl.LeanString(f.word), f.kind)
	}
	t.P("]\n\n")
	var ws []string
	for _, f := range ladder {
		ws = append(ws, f.word)
	}
	t.Fact("parseValue EqualFold ladder: %v", ws)
}
