// Generator "BBoxConsts" (tie R for C29): the integer constants that both `Diagram.BoundingBox` and the drawing code
// of d2svg use — d2target.{SHADOW_SIZE_X, SHADOW_SIZE_Y, THREE_DEE_OFFSET, MULTIPLE_OFFSET, INNER_BORDER_OFFSET,
// DEFAULT_ICON_SIZE, MAX_ICON_SIZE}, label.PADDING — plus the literals inside BoundingBox itself: the tooltip/link badge
// allowance (`… - targetShape.StrokeWidth - 16`) and the c4-person head factors (`float64(Width) * 0.22`, `float64(Height) * 0.18`).
// A change of a constant then changes the Lean model and Spec together instead of producing a model/implementation
// mismatch.
package main

import (
	"go/ast"
	"go/token"
	"regexp"
	"strings"

	"d2v/translator/tl"
)

func main() { tl.Main("BBoxConsts", gen) }

func intConst(t *tl.T, rel, name string) string {
	e := t.Var(rel, name)
	bl, ok := e.(*ast.BasicLit)
	if !ok || bl.Kind != token.INT {
		t.Fail("%s in %s is not an integer literal: %s", name, rel, t.Src(e))
	}
	return bl.Value
}

func gen(t *tl.T) {
	const tg = "d2target/d2target.go"
	names := []string{"SHADOW_SIZE_X", "SHADOW_SIZE_Y", "THREE_DEE_OFFSET", "MULTIPLE_OFFSET", "INNER_BORDER_OFFSET", "DEFAULT_ICON_SIZE", "MAX_ICON_SIZE"}
	vals := map[string]string{}
	for _, n := range names {
		vals[n] = intConst(t, tg, n)
	}
	vals["PADDING"] = intConst(t, "lib/label/label.go", "PADDING")
	bb := t.Func(tg, "Diagram", "BoundingBox")
	src := t.Src(bb.Body)
	m := regexp.MustCompile(`targetShape\.Pos\.Y-targetShape\.StrokeWidth-(\d+)`).FindStringSubmatch(src)
	m2 := regexp.MustCompile(`targetShape\.Pos\.X\+targetShape\.StrokeWidth\+targetShape\.Width\+(\d+)`).FindStringSubmatch(src)
	if m == nil || m2 == nil || m[1] != m2[1] {
		t.Fail("BoundingBox: tooltip/link badge allowance not found (or different for x and y)")
	}
	vals["BADGE"] = m[1]
	h1 := regexp.MustCompile(`headRadius := int\(float64\(targetShape\.Width\) \* 0\.(\d\d)\)`).FindStringSubmatch(src)
	h2 := regexp.MustCompile(`headCenterY := int\(float64\(targetShape\.Height\) \* 0\.(\d\d)\)`).FindStringSubmatch(src)
	if h1 == nil || h2 == nil {
		t.Fail("BoundingBox: c4-person head factors not found")
	}
	// the blocks of the shape loop the model mirrors must still be there
	for _, want := range []string{"if targetShape.Shadow {", "if targetShape.ThreeDee {", "if targetShape.Multiple {",
		"if targetShape.Type == ShapeC4Person {", "if targetShape.Label != \"\" {", "for _, connection := range diagram.Connections {"} {
		if !strings.Contains(src, want) {
			t.Fail("BoundingBox: block %q not found", want)
		}
	}
	// which box the label of a 3d / multiple shape is placed on: the plain shape box with the ad-hoc 3d shifts
	// (`labelTL.X += float64(offset)` …), or — as d2svg.drawShape does — the box grown by the offsets
	grown := strings.Contains(src, "box.Width += MULTIPLE_OFFSET") && strings.Contains(src, "box.Width += THREE_DEE_OFFSET") &&
		strings.Contains(src, "labelPosition.IsOutside() || labelPosition.IsBorder()")
	adhoc := strings.Contains(src, "labelTL.X += float64(offset)") && strings.Contains(src, "labelTL.Y -= float64(offset)")
	if grown == adhoc {
		t.Fail("BoundingBox: cannot tell on which box the label is placed (grown box: %v, ad-hoc 3d shifts: %v)", grown, adhoc)
	}
	t.Fact("d2target constants: %v; badge %s; c4-person head 0.%s / 0.%s; label placed on grown box: %v", vals, vals["BADGE"], h1[1], h2[1], grown)
	t.P("namespace D2V.Gen.BBoxConsts\n\n")
	for _, n := range append(names, "PADDING", "BADGE") {
		t.P("def %s : Int := %s\n", n, vals[n])
	}
	t.P("\n/-- c4-person head: `int(float64(Width) * headRadiusPct/100)`, `int(float64(Height) * headCenterPct/100)` -/\n")
	t.P("def headRadiusPct : Int := %s\ndef headCenterPct : Int := %s\n", strings.TrimLeft(h1[1], "0"), strings.TrimLeft(h2[1], "0"))
	t.P("\n/-- BoundingBox places outside / border labels on the box grown by the 3d / multiple offsets (as d2svg does);\n    false: on the plain box with the ad-hoc OUTSIDE_RIGHT / OUTSIDE_TOP shifts for 3d -/\n")
	t.P("def labelOnGrownBox : Bool := %v\n", grown)
	t.P("\nend D2V.Gen.BBoxConsts\n")
}
