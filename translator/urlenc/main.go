// Generator "Urlenc" (tie R for C43): which base64 encoding and which flate constructors lib/urlenc uses.
package main

import (
	"go/ast"
	"strings"

	"d2v/translator/tl"
)

func main() { tl.Main("Urlenc", gen) }

func calls(t *tl.T, fd *ast.FuncDecl) []string {
	var out []string
	ast.Inspect(fd.Body, func(n ast.Node) bool {
		if c, ok := n.(*ast.CallExpr); ok {
			s := t.Src(c.Fun)
			if strings.HasPrefix(s, "base64.") || strings.HasPrefix(s, "flate.") {
				out = append(out, s)
			}
		}
		return true
	})
	return out
}

func gen(t *tl.T) {
	enc := calls(t, t.Func("lib/urlenc/urlenc.go", "", "Encode"))
	dec := calls(t, t.Func("lib/urlenc/urlenc.go", "", "Decode"))
	if len(enc) == 0 || len(dec) == 0 {
		t.Fail("no base64/flate calls found in Encode/Decode")
	}
	t.P("namespace D2V.Gen.Urlenc\n")
	t.P("/-- base64/flate calls made by `urlenc.Encode`, in source order -/\ndef encodeCalls : List String := %s\n", tl.LeanStringList(enc))
	t.P("/-- base64/flate calls made by `urlenc.Decode`, in source order -/\ndef decodeCalls : List String := %s\n", tl.LeanStringList(dec))
	t.P("end D2V.Gen.Urlenc\n")
	t.Fact("Encode calls %v", enc)
	t.Fact("Decode calls %v", dec)
}
