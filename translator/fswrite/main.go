// fswrite — tie R for C48: which write primitive do `d2 fmt` and the renderer use for a file they replace?
//
// Extracted by structure from the tree under test:
//   - writeShape: the statement shape of d2cli.Write (d2cli/main.go): "try:<callee>", "ifok:return", "return:<callee>"
//   - fmtCmdWrites / renderWrites: the file-writing calls reachable from fmtCmd (d2cli/fmt.go) and _render
//     (d2cli/main.go) through functions of package d2cli; d2cli.Write itself is kept as the name "Write";
//     a WritePath call guarded by `if <path> == "-"` is the stdout branch and listed as "WritePath(stdout)"
//   - plainWriteCallers: functions of d2cli (non-test files) that call a truncating primitive directly
//
// lean/D2V/Props/C48.lean proves over these definitions that every listed call is the atomic one.
package main

import (
	"go/ast"
	"go/token"
	"os"
	"path/filepath"
	"sort"
	"strings"

	"d2v/translator/tl"
)

func main() { tl.Main("FsWrite", gen) }

type pkgFuncs struct {
	t     *tl.T
	funcs map[string]*ast.FuncDecl // top-level functions without receiver
	files []string
}

func loadPkg(t *tl.T, dir string) *pkgFuncs {
	ents, err := os.ReadDir(filepath.Join(t.Repo, dir))
	if err != nil {
		t.Fail("cannot list %s: %v", dir, err)
	}
	p := &pkgFuncs{t: t, funcs: map[string]*ast.FuncDecl{}}
	for _, e := range ents {
		n := e.Name()
		if e.IsDir() || !strings.HasSuffix(n, ".go") || strings.HasSuffix(n, "_test.go") || strings.HasPrefix(n, "verif_") {
			continue
		}
		rel := filepath.Join(dir, n)
		p.files = append(p.files, rel)
		for _, d := range t.File(rel).Decls {
			if fd, ok := d.(*ast.FuncDecl); ok && fd.Recv == nil && fd.Body != nil {
				p.funcs[fd.Name.Name] = fd
			}
		}
	}
	return p
}

var truncating = map[string]bool{"os.WriteFile": true, "os.Create": true, "os.OpenFile": true, "ioutil.WriteFile": true}

// classify returns the name under which a call is listed ("" = not a file-writing call).
func classify(call *ast.CallExpr, stdoutIdents map[string]bool) string {
	switch f := call.Fun.(type) {
	case *ast.SelectorExpr:
		switch f.Sel.Name {
		case "WritePath":
			if len(call.Args) > 0 {
				if id, ok := call.Args[0].(*ast.Ident); ok && stdoutIdents[id.Name] {
					return "WritePath(stdout)"
				}
			}
			return "WritePath"
		case "AtomicWritePath":
			return "AtomicWritePath"
		}
		if x, ok := f.X.(*ast.Ident); ok {
			n := x.Name + "." + f.Sel.Name
			if truncating[n] {
				return n
			}
		}
	case *ast.Ident:
		if f.Name == "Write" {
			return "Write"
		}
	}
	return ""
}

// stdoutGuard: `if x == "-" {` → "x"
func stdoutGuard(t *tl.T, s *ast.IfStmt) string {
	be, ok := s.Cond.(*ast.BinaryExpr)
	if !ok || be.Op != token.EQL {
		return ""
	}
	id, ok := be.X.(*ast.Ident)
	if !ok {
		return ""
	}
	if v, ok := t.StringLit(be.Y); ok && v == "-" {
		return id.Name
	}
	return ""
}

// walk lists the file-writing calls of a node in source order, expanding same-package callees (except Write).
func (p *pkgFuncs) walk(n ast.Node, stdout map[string]bool, visited map[string]bool, expand bool, out *[]string) {
	if n == nil {
		return
	}
	ast.Inspect(n, func(x ast.Node) bool {
		switch s := x.(type) {
		case *ast.IfStmt:
			if g := stdoutGuard(p.t, s); g != "" {
				if s.Init != nil {
					p.walk(s.Init, stdout, visited, expand, out)
				}
				inner := map[string]bool{g: true}
				for k := range stdout {
					inner[k] = true
				}
				p.walk(s.Body, inner, visited, expand, out)
				if s.Else != nil {
					p.walk(s.Else, stdout, visited, expand, out)
				}
				return false
			}
		case *ast.CallExpr:
			if c := classify(s, stdout); c != "" {
				*out = append(*out, c)
				return true
			}
			if id, ok := s.Fun.(*ast.Ident); ok && expand {
				if fd, ok := p.funcs[id.Name]; ok && !visited[id.Name] {
					visited[id.Name] = true
					for _, a := range s.Args {
						p.walk(a, stdout, visited, expand, out)
					}
					p.walk(fd.Body, map[string]bool{}, visited, expand, out)
					return false
				}
			}
		}
		return true
	})
}

func writeShape(t *tl.T, fd *ast.FuncDecl) []string {
	var shape []string
	callee := func(e ast.Expr) string {
		c, ok := e.(*ast.CallExpr)
		if !ok {
			return ""
		}
		if se, ok := c.Fun.(*ast.SelectorExpr); ok {
			return se.Sel.Name
		}
		if id, ok := c.Fun.(*ast.Ident); ok {
			return id.Name
		}
		return ""
	}
	for _, st := range fd.Body.List {
		switch s := st.(type) {
		case *ast.AssignStmt:
			if len(s.Lhs) == 1 && len(s.Rhs) == 1 && t.Src(s.Lhs[0]) == "err" && callee(s.Rhs[0]) != "" {
				shape = append(shape, "try:"+callee(s.Rhs[0]))
				continue
			}
			shape = append(shape, "other:"+t.Src(s))
		case *ast.IfStmt:
			if s.Init == nil && s.Else == nil && t.Src(s.Cond) == "err == nil" && len(s.Body.List) == 1 {
				if r, ok := s.Body.List[0].(*ast.ReturnStmt); ok && len(r.Results) == 1 && t.Src(r.Results[0]) == "nil" {
					shape = append(shape, "ifok:return")
					continue
				}
			}
			shape = append(shape, "other:if "+t.Src(s.Cond))
		case *ast.ReturnStmt:
			if len(s.Results) == 1 && callee(s.Results[0]) != "" {
				shape = append(shape, "return:"+callee(s.Results[0]))
				continue
			}
			shape = append(shape, "other:"+t.Src(s))
		case *ast.ExprStmt:
			if strings.Contains(t.Src(s), ".Log.") {
				continue // logging only
			}
			shape = append(shape, "other:"+t.Src(s))
		default:
			shape = append(shape, "other:"+t.Src(st))
		}
	}
	return shape
}

func gen(t *tl.T) {
	p := loadPkg(t, "d2cli")
	wfd := t.Func("d2cli/main.go", "", "Write")
	shape := writeShape(t, wfd)
	if len(shape) == 0 {
		t.Fail("d2cli.Write has an empty body")
	}

	var fmtW []string
	p.walk(t.Func("d2cli/fmt.go", "", "fmtCmd").Body, map[string]bool{}, map[string]bool{"fmtCmd": true, "Write": true}, true, &fmtW)
	if len(fmtW) == 0 {
		t.Fail("fmtCmd reaches no file-writing call")
	}
	var renW []string
	p.walk(t.Func("d2cli/main.go", "", "_render").Body, map[string]bool{}, map[string]bool{"_render": true, "Write": true}, true, &renW)
	if len(renW) == 0 {
		t.Fail("_render reaches no file-writing call")
	}

	callers := map[string]bool{}
	for name, fd := range p.funcs {
		var direct []string
		p.walk(fd.Body, map[string]bool{}, map[string]bool{}, false, &direct)
		for _, c := range direct {
			if c == "WritePath" || truncating[c] {
				callers[name] = true
			}
		}
	}
	var callerList []string
	for c := range callers {
		callerList = append(callerList, c)
	}
	sort.Strings(callerList)

	t.P("namespace D2V.Gen.FsWrite\n\n")
	t.P("/-- statement shape of d2cli.Write (d2cli/main.go) -/\n")
	t.P("def writeShape : List String := %s\n\n", tl.LeanStringList(shape))
	t.P("/-- file-writing calls reachable from fmtCmd (d2cli/fmt.go), d2cli.Write not expanded -/\n")
	t.P("def fmtCmdWrites : List String := %s\n\n", tl.LeanStringList(fmtW))
	t.P("/-- file-writing calls reachable from _render (d2cli/main.go), d2cli.Write not expanded -/\n")
	t.P("def renderWrites : List String := %s\n\n", tl.LeanStringList(renW))
	t.P("/-- functions of package d2cli that call a truncating write primitive on a file path directly -/\n")
	t.P("def plainWriteCallers : List String := %s\n\n", tl.LeanStringList(callerList))
	t.P("end D2V.Gen.FsWrite\n")
	t.Fact("FsWrite.writeShape=%s", strings.Join(shape, ","))
	t.Fact("FsWrite.fmtCmdWrites=%s", strings.Join(fmtW, ","))
	t.Fact("FsWrite.renderWrites=%s", strings.Join(renW, ","))
	t.Fact("FsWrite.plainWriteCallers=%s", strings.Join(callerList, ","))
}
