// Tie R for C24: numeric constants of d2layouts/d2near (pad) and lib/label (PADDING) and the three placement
// sets of d2near.Layout (which keys are placed in which phase).
package main

import (
	"go/ast"
	"go/token"
	"sort"
	"strconv"
	"strings"

	"d2v/translator/tl"
)

func intConst(t *tl.T, rel, name string) int {
	e := t.Var(rel, name)
	bl, ok := e.(*ast.BasicLit)
	if !ok || bl.Kind != token.INT {
		t.Fail("%s in %s is not an integer literal: %s", name, rel, t.Src(e))
	}
	v, err := strconv.Atoi(bl.Value)
	if err != nil {
		t.Fail("%s: %v", name, err)
	}
	t.Fact("%s:%s = %d", rel, name, v)
	return v
}

func gen(t *tl.T) {
	pad := intConst(t, "d2layouts/d2near/layout.go", "pad")
	lp := intConst(t, "lib/label/label.go", "PADDING")
	t.P("namespace D2V.Gen.Near\n\n")
	t.P("/-- `const pad` of d2layouts/d2near/layout.go -/\ndef pad : Int := %d\n\n", pad)
	t.P("/-- `const PADDING` of lib/label/label.go -/\ndef labelPadding : Int := %d\n\n", lp)
	// phase sets, in the order of the `for _, currentSet := range []set{…}` loop of Layout
	fd := t.Func("d2layouts/d2near/layout.go", "", "Layout")
	var order []string
	ast.Inspect(fd.Body, func(n ast.Node) bool {
		rs, ok := n.(*ast.RangeStmt)
		if !ok || order != nil {
			return true
		}
		cl, ok := rs.X.(*ast.CompositeLit)
		if !ok {
			return true
		}
		for _, el := range cl.Elts {
			id, ok := el.(*ast.Ident)
			if !ok {
				return true
			}
			order = append(order, id.Name)
		}
		return false
	})
	if len(order) != 3 {
		t.Fail("Layout: expected a range over a literal of three placement sets, found %v", order)
	}
	for i, name := range order {
		keys := t.StringElems(t.Var("d2layouts/d2near/layout.go", name), nil)
		sort.Strings(keys)
		t.Fact("phase %d = %s %v", i, name, keys)
		t.P("/-- keys placed in phase %d (`%s`) -/\ndef phase%d : List String := %s\n\n", i, name, i, tl.LeanStringList(keys))
	}
	_ = strings.Join
	t.P("end D2V.Gen.Near\n")
}

func main() { tl.Main("Near", gen) }
