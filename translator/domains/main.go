// Generator "Domains" (tie R for C16): re-reads the value validation code of d2 and emits, as Lean,
//   - for every `case "<kw>":` of d2graph.(*Style).Apply and d2compiler.(*compiler).compileReserved and
//     d2ir.(*compiler).validateConfigs: the parsing primitive it calls and the guard on the parsed value,
//     translated expression by expression (so `f > 15` → `f > 16` changes a Lean definition);
//   - the enumerations those cases consult (fill patterns, text transforms, fonts, directions, shapes,
//     arrowheads, named colours, the hex-colour regexp, theme IDs).
package main

import (
	"fmt"
	"go/ast"
	"go/token"
	"os"
	"path/filepath"
	"sort"
	"strconv"
	"strings"

	"d2v/translator/tl"
)

func main() { tl.Main("Domains", gen) }

type clauseInfo struct {
	kw     string
	prim   string   // int | float | bool | color | enum:<name> | none
	guards []string // Go source of each guard expression over the parsed variable (already joined by ||)
	lean   string   // Lean Bool expression over variable `x` : true = reject
	lower  bool     // stored value is lower-cased
}

// parsedVar finds `<v>, err := strconv.Atoi/ParseFloat/ParseBool(...)` in a clause.
func analyseClause(t *tl.T, kw string, cc *ast.CaseClause) clauseInfo {
	ci := clauseInfo{kw: kw, prim: "none"}
	varName := ""
	var guardExprs []ast.Expr
	ast.Inspect(cc, func(n ast.Node) bool {
		switch x := n.(type) {
		case *ast.AssignStmt:
			if len(x.Rhs) == 1 {
				if call, ok := x.Rhs[0].(*ast.CallExpr); ok {
					switch t.Src(call.Fun) {
					case "strconv.Atoi":
						ci.prim = "int"
					case "strconv.ParseFloat":
						ci.prim = "float"
					case "strconv.ParseBool":
						ci.prim = "bool"
					default:
						return true
					}
					if id, ok := x.Lhs[0].(*ast.Ident); ok && id.Name != "_" {
						varName = id.Name
					}
				}
			}
		case *ast.CallExpr:
			switch t.Src(x.Fun) {
			case "color.ValidColor":
				ci.prim = "color"
			case "go2.Contains":
				if len(x.Args) == 2 {
					ci.prim = "enum:" + t.Src(x.Args[0])
					if strings.Contains(t.Src(x.Args[1]), "ToLower") || strings.Contains(t.Src(x.Args[1]), "val") {
						// membership is tested on the lower-cased value
					}
				}
			case "d2target.IsShape":
				ci.prim = "enum:shape"
			}
		case *ast.IndexExpr:
			if strings.HasSuffix(t.Src(x.X), "D2_FONT_TO_FAMILY") {
				ci.prim = "enum:fonts"
			}
		}
		return true
	})
	// guards: every `if` condition that mentions the parsed variable (besides err != nil)
	if varName != "" {
		ast.Inspect(cc, func(n ast.Node) bool {
			ifs, ok := n.(*ast.IfStmt)
			if !ok {
				return true
			}
			if mentions(ifs.Cond, varName) {
				guardExprs = append(guardExprs, stripErr(ifs.Cond))
			}
			return true
		})
	}
	var leans []string
	for _, g := range guardExprs {
		if g == nil {
			continue
		}
		ci.guards = append(ci.guards, t.Src(g))
		leans = append(leans, toLean(t, g, varName, ci.prim))
	}
	if len(leans) == 0 {
		ci.lean = "false"
	} else {
		ci.lean = strings.Join(leans, " || ")
	}
	// stored lower-cased?
	ast.Inspect(cc, func(n ast.Node) bool {
		if as, ok := n.(*ast.AssignStmt); ok && len(as.Lhs) == 1 && len(as.Rhs) == 1 {
			l := t.Src(as.Lhs[0])
			if strings.HasSuffix(l, ".Value") {
				r := t.Src(as.Rhs[0])
				if strings.Contains(r, "ToLower") || r == "val" || r == "shapeVal" {
					ci.lower = true
				}
			}
		}
		return true
	})
	return ci
}

func mentions(e ast.Expr, name string) bool {
	found := false
	ast.Inspect(e, func(n ast.Node) bool {
		if id, ok := n.(*ast.Ident); ok && id.Name == name {
			found = true
		}
		return true
	})
	return found
}

// stripErr removes the `err != nil ||` disjunct of a guard.
func stripErr(e ast.Expr) ast.Expr {
	if b, ok := e.(*ast.BinaryExpr); ok && b.Op == token.LOR {
		if isErrTest(b.X) {
			return stripErr(b.Y)
		}
		if isErrTest(b.Y) {
			return stripErr(b.X)
		}
	}
	if isErrTest(e) {
		return nil
	}
	return e
}

func isErrTest(e ast.Expr) bool {
	b, ok := e.(*ast.BinaryExpr)
	if !ok || b.Op != token.NEQ {
		return false
	}
	x, ok1 := b.X.(*ast.Ident)
	y, ok2 := b.Y.(*ast.Ident)
	return ok1 && ok2 && x.Name == "err" && y.Name == "nil"
}

// toLean translates a Go boolean expression over the parsed variable into a Lean Bool expression over `x`.
func toLean(t *tl.T, e ast.Expr, v, prim string) string {
	switch x := e.(type) {
	case *ast.ParenExpr:
		return "(" + toLean(t, x.X, v, prim) + ")"
	case *ast.UnaryExpr:
		if x.Op == token.NOT {
			return "(!" + toLean(t, x.X, v, prim) + ")"
		}
	case *ast.BinaryExpr:
		switch x.Op {
		case token.LOR:
			return "(" + toLean(t, x.X, v, prim) + " || " + toLean(t, x.Y, v, prim) + ")"
		case token.LAND:
			return "(" + toLean(t, x.X, v, prim) + " && " + toLean(t, x.Y, v, prim) + ")"
		case token.LSS, token.GTR, token.LEQ, token.GEQ, token.EQL, token.NEQ:
			if x.Op == token.EQL && strings.HasPrefix(t.Src(x.X), "d2themescatalog.Find(") && t.Src(x.Y) == "(d2themes.Theme{})" {
				call := x.X.(*ast.CallExpr)
				arg := call.Args[0]
				if c2, ok := arg.(*ast.CallExpr); ok && len(c2.Args) == 1 {
					arg = c2.Args[0]
				}
				return "(themeUnknown " + operand(t, arg, v, prim) + ")"
			}
			op := map[token.Token]string{token.LSS: "lt", token.GTR: "gt", token.LEQ: "le", token.GEQ: "ge", token.EQL: "eq", token.NEQ: "ne"}[x.Op]
			return fmt.Sprintf("(Cmp.%s %s %s)", op, operand(t, x.X, v, prim), operand(t, x.Y, v, prim))
		}
	case *ast.CallExpr:
		if t.Src(x.Fun) == "math.IsNaN" && len(x.Args) == 1 {
			return "(Cmp.isNaN " + operand(t, x.Args[0], v, prim) + ")"
		}
		if t.Src(x.Fun) == "math.IsInf" && len(x.Args) == 2 {
			return "(Cmp.isInf " + operand(t, x.Args[0], v, prim) + ")"
		}
	}
	t.Fail("guard expression not understood: %s", t.Src(e))
	return ""
}

func operand(t *tl.T, e ast.Expr, v, prim string) string {
	switch x := e.(type) {
	case *ast.Ident:
		if x.Name == v {
			return "x"
		}
	case *ast.BasicLit:
		if x.Kind == token.INT {
			if prim == "float" {
				return "(FVal.ofInt " + x.Value + ")"
			}
			return "(" + x.Value + " : Int)"
		}
		if x.Kind == token.FLOAT && prim == "float" {
			// decimal literal → exact rational
			f := x.Value
			if i := strings.IndexByte(f, '.'); i >= 0 && !strings.ContainsAny(f, "eExXpP") {
				frac := f[i+1:]
				num := strings.TrimLeft(f[:i]+frac, "0")
				if num == "" {
					num = "0"
				}
				return fmt.Sprintf("(FVal.ofRat ((%s : Rat) / (%s : Rat)))", num, "1"+strings.Repeat("0", len(frac)))
			}
		}
	case *ast.UnaryExpr:
		if x.Op == token.SUB {
			if bl, ok := x.X.(*ast.BasicLit); ok && bl.Kind == token.INT {
				if prim == "float" {
					return "(FVal.ofInt (-" + bl.Value + "))"
				}
				return "(-" + bl.Value + " : Int)"
			}
		}
	case *ast.ParenExpr:
		return operand(t, x.X, v, prim)
	}
	t.Fail("guard operand not understood: %s", t.Src(e))
	return ""
}

func leanPrim(t *tl.T, p string) string {
	switch p {
	case "int", "float", "bool", "color", "none":
		return "Prim." + p
	case "enum:d2ast.FillPatterns":
		return "(Prim.enum .fillPatterns)"
	case "enum:d2ast.TextTransforms":
		return "(Prim.enum .textTransforms)"
	case "enum:fonts":
		return "(Prim.enum .fonts)"
	case "enum:dirs":
		return "(Prim.enum .dirs)"
	case "enum:shape":
		return "(Prim.enum .shape)"
	}
	t.Fail("unknown primitive %q", p)
	return ""
}

func emitClauses(t *tl.T, ns, rel, recv, fn, probe string, wanted []string) {
	fd := t.Func(rel, recv, fn)
	// compileReserved has two switches; the value switch is the one that has a case `probe`
	clauses := t.CaseClauses(fd.Body, probe)
	var infos []clauseInfo
	for _, kw := range wanted {
		cc, ok := clauses[kw]
		if !ok {
			t.Fail("%s.%s: no case %q", recv, fn, kw)
		}
		infos = append(infos, analyseClause(t, kw, cc))
	}
	t.P("\n/-! ### %s.%s (%s) -/\nnamespace %s\n", recv, fn, rel, ns)
	t.P("/-- keyword ↦ (primitive, stored lower-cased) as found in the code -/\ndef table : List (String × Prim × Bool) := [\n")
	for i, ci := range infos {
		sep := ","
		if i == len(infos)-1 {
			sep = ""
		}
		t.P("  (%s, %s, %v)%s\n", tl.LeanString(ci.kw), leanPrim(t, ci.prim), ci.lower, sep)
	}
	t.P("]\n")
	for _, ci := range infos {
		switch ci.prim {
		case "int":
			t.P("/-- Go: `%s` -/\ndef reject_%s (x : Int) : Bool := %s\n", strings.Join(ci.guards, " ; "), tl.LeanIdent(ci.kw), ci.lean)
		case "float":
			t.P("/-- Go: `%s` -/\ndef reject_%s (x : FVal) : Bool := %s\n", strings.Join(ci.guards, " ; "), tl.LeanIdent(ci.kw), ci.lean)
		}
		t.Fact("%s.%s case %q: prim=%s guard=%q lower=%v", recv, fn, ci.kw, ci.prim, strings.Join(ci.guards, " ; "), ci.lower)
	}
	// dispatchers
	t.P("def rejectInt (kw : String) (x : Int) : Bool :=\n  match kw with\n")
	for _, ci := range infos {
		if ci.prim == "int" {
			t.P("  | %s => reject_%s x\n", tl.LeanString(ci.kw), tl.LeanIdent(ci.kw))
		}
	}
	t.P("  | _ => false\n")
	t.P("def rejectFloat (kw : String) (x : FVal) : Bool :=\n  match kw with\n")
	for _, ci := range infos {
		if ci.prim == "float" {
			t.P("  | %s => reject_%s x\n", tl.LeanString(ci.kw), tl.LeanIdent(ci.kw))
		}
	}
	t.P("  | _ => false\n")
	t.P("end %s\n", ns)
}

func gen(t *tl.T) {
	t.P("import D2V.Model.DomPrim\nset_option linter.unusedVariables false\nnamespace D2V.Gen.Domains\nopen D2V.Dom\n")
	// enumerations
	kwConsts := t.StringConsts("d2ast/keywords.go")
	t.P("\n/-! ### enumerations -/\n")
	fp := t.StringElems(t.Var("d2ast/keywords.go", "FillPatterns"), kwConsts)
	t.P("def fillPatterns : List String := %s\n", tl.LeanStringList(fp))
	tt := t.StringElems(t.Var("d2ast/keywords.go", "TextTransforms"), kwConsts)
	t.P("def textTransforms : List String := %s\n", tl.LeanStringList(tt))
	fonts := t.StringElems(t.Var("d2renderers/d2fonts/d2fonts_common.go", "D2_FONT_TO_FAMILY"), nil)
	sort.Strings(fonts)
	t.P("def fonts : List String := %s\n", tl.LeanStringList(fonts))
	// directions: local slice literal inside compileReserved's "direction" case
	fd := t.Func("d2compiler/compile.go", "compiler", "compileReserved")
	dirCase := t.CaseClauses(fd.Body, "grid-rows")["direction"]
	var dirs []string
	ast.Inspect(dirCase, func(n ast.Node) bool {
		if cl, ok := n.(*ast.CompositeLit); ok && dirs == nil {
			dirs = t.StringElems(cl, nil)
		}
		return true
	})
	if dirs == nil {
		t.Fail("direction list literal not found in compileReserved")
	}
	t.P("def directions : List String := %s\n", tl.LeanStringList(dirs))
	tgConsts := t.StringConsts("d2target/d2target.go")
	shapes := t.StringElems(t.Var("d2target/d2target.go", "Shapes"), tgConsts)
	t.P("def shapes : List String := %s\n", tl.LeanStringList(shapes))
	// Arrowheads keys are string(Const)
	ah := t.Var("d2target/d2target.go", "Arrowheads").(*ast.CompositeLit)
	var arrows []string
	for _, el := range ah.Elts {
		kv := el.(*ast.KeyValueExpr)
		k := kv.Key
		if call, ok := k.(*ast.CallExpr); ok && len(call.Args) == 1 {
			k = call.Args[0]
		}
		id, ok := k.(*ast.Ident)
		if !ok {
			t.Fail("arrowhead key %s", t.Src(kv.Key))
		}
		v, ok := tgConsts[id.Name]
		if !ok {
			t.Fail("arrowhead const %s unknown", id.Name)
		}
		arrows = append(arrows, v)
	}
	sort.Strings(arrows)
	t.P("def arrowheads : List String := %s\n", tl.LeanStringList(arrows))
	named := t.StringElems(t.Var("lib/color/color.go", "NamedColors"), nil)
	t.P("def namedColors : List String := %s\n", tl.LeanStringList(named))
	// hex regexp text
	re := t.Var("lib/color/color.go", "ColorHexRegex").(*ast.CallExpr)
	reText, ok := t.StringLit(re.Args[0])
	if !ok {
		t.Fail("ColorHexRegex is not regexp.MustCompile(<literal>)")
	}
	t.P("def colorHexRegex : String := %s\n", tl.LeanString(reText))
	// ValidColor structure: the non-gradient branch must be `!Contains(NamedColors, ToLower(color)) && !ColorHexRegex.MatchString(color)`
	vc := t.Func("lib/color/color.go", "", "ValidColor")
	src := t.Src(vc.Body)
	want := "!go2.Contains(NamedColors, strings.ToLower(color)) && !ColorHexRegex.MatchString(color)"
	t.P("/-- the non-gradient branch of ValidColor is `named(lower c) ∨ hex c` -/\ndef validColorShapeOk : Bool := %v\n", strings.Contains(src, want))
	t.Fact("ValidColor non-gradient branch recognised: %v", strings.Contains(src, want))
	// theme ids: every `ID: <int>` in the catalog package
	var ids []int
	files, _ := filepath.Glob(filepath.Join(t.Repo, "d2themes/d2themescatalog/*.go"))
	sort.Strings(files)
	for _, f := range files {
		if strings.HasSuffix(f, "_test.go") {
			continue
		}
		rel, _ := filepath.Rel(t.Repo, f)
		ast.Inspect(t.File(rel), func(n ast.Node) bool {
			kv, ok := n.(*ast.KeyValueExpr)
			if !ok {
				return true
			}
			if id, ok := kv.Key.(*ast.Ident); ok && id.Name == "ID" {
				if bl, ok := kv.Value.(*ast.BasicLit); ok && bl.Kind == token.INT {
					v, _ := strconv.Atoi(bl.Value)
					ids = append(ids, v)
				}
			}
			return true
		})
	}
	// only themes that are listed in LightCatalog / DarkCatalog are findable
	cat := t.File("d2themes/d2themescatalog/catalog.go")
	listed := map[string]bool{}
	for _, name := range []string{"LightCatalog", "DarkCatalog"} {
		cl, ok := t.Var("d2themes/d2themescatalog/catalog.go", name).(*ast.CompositeLit)
		if !ok {
			t.Fail("%s is not a literal", name)
		}
		for _, el := range cl.Elts {
			listed[t.Src(el)] = true
		}
	}
	_ = cat
	var listedIDs []int
	for _, f := range files {
		rel, _ := filepath.Rel(t.Repo, f)
		for _, d := range t.File(rel).Decls {
			gd, ok := d.(*ast.GenDecl)
			if !ok {
				continue
			}
			for _, s := range gd.Specs {
				vs, ok := s.(*ast.ValueSpec)
				if !ok || len(vs.Values) != 1 || !listed[vs.Names[0].Name] {
					continue
				}
				ast.Inspect(vs.Values[0], func(n ast.Node) bool {
					if kv, ok := n.(*ast.KeyValueExpr); ok {
						if id, ok := kv.Key.(*ast.Ident); ok && id.Name == "ID" {
							if bl, ok := kv.Value.(*ast.BasicLit); ok {
								v, _ := strconv.Atoi(bl.Value)
								listedIDs = append(listedIDs, v)
							}
						}
					}
					return true
				})
			}
		}
	}
	sort.Ints(listedIDs)
	if len(listedIDs) == 0 {
		t.Fail("no theme IDs found")
	}
	var sb []string
	for _, v := range listedIDs {
		sb = append(sb, strconv.Itoa(v))
	}
	t.P("def themeIDs : List Int := [%s]\n", strings.Join(sb, ", "))
	t.Fact("theme IDs: %s", strings.Join(sb, ","))
	t.P("/-- `d2themescatalog.Find(id) == Theme{}` -/\ndef themeUnknown (x : Int) : Bool := !(themeIDs.contains x)\n")
	styleKws := []string{"opacity", "stroke", "fill", "fill-pattern", "stroke-width", "stroke-dash", "border-radius", "shadow", "3d", "multiple", "font", "font-size", "font-color", "animated", "bold", "italic", "underline", "filled", "double-border", "text-transform"}
	emitClauses(t, "Style", "d2graph/d2graph.go", "Style", "Apply", "opacity", styleKws)
	resKws := []string{"shape", "width", "height", "top", "left", "direction", "grid-rows", "grid-columns", "grid-gap", "vertical-gap", "horizontal-gap"}
	emitClauses(t, "Reserved", "d2compiler/compile.go", "compiler", "compileReserved", "grid-rows", resKws)
	cfgKws := []string{"sketch", "center", "theme-id", "dark-theme-id", "pad"}
	emitClauses(t, "Config", "d2ir/compile.go", "compiler", "validateConfigs", "theme-id", cfgKws)

	t.P("end D2V.Gen.Domains\n")
	_ = os.Stdout
}
