// linkscfg — tie R for C35: which variant of the four link-handling spots is in the tree under test?
//
//	danglingFalse  d2compiler hasBoard/hasBoardPath: `if len(ida) == 1 { return false }`  (legacy: `return root.Name == id…`)
//	singleRoot     d2compiler hasBoard strips one leading `root` (`ida = ida[1:]`)         (legacy: recursive call on every `root`)
//	idaPerLevel    d2graph (*Graph).IDA determines the container kind inside the walk up the parents (legacy: once, for g)
//	keepKeywordCase d2ast.RawString quotes keys equal to a reserved keyword up to case (legacy: unquoted, lower-cased by d2format)
//	relinkByValue  d2cli relink compares a normalised key (a call in place of `shape.Link == k`)   (legacy: `shape.Link == k`)
//
// The Lean model (D2V/Model/Links.lean) takes these four flags; lean/D2V/Props/C35.lean proves the property's first
// clause at full strength when the first two are set and exhibits the counterexamples when they are not.
package main

import (
	"go/ast"
	"strings"

	"d2v/translator/tl"
)

func main() { tl.Main("LinksCfg", gen) }

func findFunc(t *tl.T, rel, name string) *ast.FuncDecl {
	for _, d := range t.File(rel).Decls {
		if fd, ok := d.(*ast.FuncDecl); ok && fd.Name.Name == name && fd.Body != nil {
			return fd
		}
	}
	return nil
}

func gen(t *tl.T) {
	const comp = "d2compiler/compile.go"
	// 1. the len(ida) == 1 branch
	fd := findFunc(t, comp, "hasBoardPath")
	if fd == nil {
		fd = findFunc(t, comp, "hasBoard")
	}
	if fd == nil {
		t.Fail("hasBoard not found in %s", comp)
	}
	dangling := ""
	ast.Inspect(fd.Body, func(n ast.Node) bool {
		is, ok := n.(*ast.IfStmt)
		if !ok || t.Src(is.Cond) != "len(ida) == 1" {
			return true
		}
		for _, st := range is.Body.List {
			if r, ok := st.(*ast.ReturnStmt); ok && len(r.Results) == 1 {
				dangling = t.Src(r.Results[0])
			}
		}
		return false
	})
	var danglingFalse bool
	switch {
	case dangling == "false":
		danglingFalse = true
	case strings.Contains(dangling, "root.Name =="):
		danglingFalse = false
	default:
		t.Fail("hasBoard: the `len(ida) == 1` branch returns %q (expected `false` or a comparison with root.Name)", dangling)
	}
	// 2. how `root` elements are skipped
	hb := findFunc(t, comp, "hasBoard")
	if hb == nil {
		t.Fail("hasBoard not found")
	}
	recursiveRoot, assignRoot := false, false
	ast.Inspect(hb.Body, func(n ast.Node) bool {
		is, ok := n.(*ast.IfStmt)
		if !ok || !strings.Contains(t.Src(is.Cond), `"root"`) {
			return true
		}
		ast.Inspect(is.Body, func(m ast.Node) bool {
			switch x := m.(type) {
			case *ast.CallExpr:
				if id, ok := x.Fun.(*ast.Ident); ok && id.Name == "hasBoard" {
					recursiveRoot = true
				}
			case *ast.AssignStmt:
				if t.Src(x) == "ida = ida[1:]" {
					assignRoot = true
				}
			}
			return true
		})
		return false
	})
	if recursiveRoot == assignRoot {
		t.Fail("hasBoard: cannot tell how leading `root` elements are skipped (recursive=%v assign=%v)", recursiveRoot, assignRoot)
	}
	// 3. Graph.IDA
	ida := t.Func("d2graph/d2graph.go", "Graph", "IDA")
	perLevel := false
	sawWalk := false
	ast.Inspect(ida.Body, func(n ast.Node) bool {
		fs, ok := n.(*ast.ForStmt)
		if !ok || fs.Cond == nil || !strings.Contains(t.Src(fs.Cond), "current") {
			return true
		}
		sawWalk = true
		ast.Inspect(fs.Body, func(m ast.Node) bool {
			if id, ok := m.(*ast.Ident); ok && id.Name == "containerName" {
				perLevel = true
			}
			return true
		})
		return false
	})
	if !sawWalk {
		t.Fail("Graph.IDA: the walk `for … current …` up the parents is gone")
	}
	// 4. relink
	rl := t.Func("d2cli/main.go", "", "relink")
	rawCompare, keyed := false, false
	ast.Inspect(rl.Body, func(n ast.Node) bool {
		if be, ok := n.(*ast.BinaryExpr); ok {
			s := t.Src(be)
			if s == "shape.Link == k" {
				rawCompare = true
			}
			if s == "link == k" {
				keyed = true
			}
		}
		return true
	})
	if rawCompare == keyed {
		t.Fail("relink: cannot tell how the link is compared with the map keys (raw=%v keyed=%v)", rawCompare, keyed)
	}
	if keyed {
		k := findFunc(t, "d2cli/main.go", "boardLinkKey")
		if k == nil || !strings.Contains(t.Src(k.Body), "StringIDA()") {
			t.Fail("relink compares a normalised key but boardLinkKey (ParseKey + StringIDA joined by \".\") is not there")
		}
	}
	// 5. does d2ast.RawString quote a key that equals a reserved keyword only case-insensitively (so that the
	//    formatter keeps its spelling), or is it written unquoted and lower-cased by d2format?
	rs := t.Func("d2ast/d2ast.go", "", "RawString")
	keepCase := false
	ast.Inspect(rs.Body, func(n ast.Node) bool {
		if ix, ok := n.(*ast.IndexExpr); ok {
			if id, ok := ix.X.(*ast.Ident); ok && id.Name == "ReservedKeywords" {
				keepCase = true
			}
		}
		return true
	})
	b := func(x bool) string {
		if x {
			return "true"
		}
		return "false"
	}
	t.P("namespace D2V.Gen.LinksCfg\n\n")
	t.P("def danglingFalse : Bool := %s\n", b(danglingFalse))
	t.P("def singleRoot : Bool := %s\n", b(assignRoot))
	t.P("def idaPerLevel : Bool := %s\n", b(perLevel))
	t.P("def relinkByValue : Bool := %s\n", b(keyed))
	t.P("def keepKeywordCase : Bool := %s\n\n", b(keepCase))
	t.P("end D2V.Gen.LinksCfg\n")
	t.Fact("LinksCfg.danglingFalse=%v", danglingFalse)
	t.Fact("LinksCfg.singleRoot=%v", assignRoot)
	t.Fact("LinksCfg.idaPerLevel=%v", perLevel)
	t.Fact("LinksCfg.relinkByValue=%v", keyed)
	t.Fact("LinksCfg.keepKeywordCase=%v", keepCase)
}
